"""E1 — API-history simulator, real physics.

The simulator is the only client of one or two GHEManager instances and of the GHE objects they return.  A plan
is (configuration, optional second configuration, operation list, clock); executing it issues the operations,
records an event log and checks, after every operation, the property's oracle against a reference model:
a plain configuration dict + `fresh(cfg)` (brand-new manager, canonical setter order, one find_design) and
`fresh_ghe(cfg, field)` (brand-new GHE for the returned field on which only the one call is made).

Faults: operation aborts (an exception injected at the k-th long-time g-function calculation or the k-th
GHE.simulate inside find_design / size) followed by a retry; clock jumps (forward and backward).
Seams: ghedesigner.gfunction.calculate_g_function (memo + abort point), GHE.simulate (abort point),
ghedesigner.manager.time / ghedesigner.output.datetime (virtual clock), builtins.open/io.open/os.mkdir (shim).
"""
from __future__ import annotations

import contextlib
import copy
import csv
import datetime as _dt
import io
import json
import math
import random
import re
import traceback
import warnings
from pathlib import Path

from . import gen, seams
from .kernel import EventLog, Violation, close, derive_rng, digest, plain, vclasses

TOL = 1.0e-3  # the sizing tolerance the properties quote


# ------------------------------------------------------------------------------------------ plan generation
WEIGHTS = {
    # op kind -> weight per property family
    "C13": {"find": 3, "redesign": 3, "abort_find": 3, "other": 2, "nominal": 2, "sim": 5, "sim_hourly": 2, "sim_out": 2,
            "size": 2, "abort_size": 2, "abort_sim": 2, "regen": 1, "report": 1, "tick": 1, "rebuild": 2, "pristine": 0.6, "reconf": 3,
            "ghe_new": 1.5, "poke": 1.5, "other_leap": 0.5},
    "C12": {"find": 1, "redesign": 1, "abort_find": 1, "other": 1.5, "nominal": 1, "sim": 3, "size": 2, "abort_size": 1, "regen": 1,
            "report": 4, "tick": 1, "rebuild": 0, "poke": 2, "abort_sim": 1, "deferred_report": 1.5, "late_setter": 1.5},
    "C19": {"find": 1, "redesign": 1, "sim": 2, "sim_hourly": 1, "size": 1, "regen": 1, "report": 5, "tick": 2, "rebuild": 0, "other": 1.5,
            "poke": 1.5, "other_leap": 0.7, "deferred_report": 2},
    "C01": {"find": 2, "redesign": 2, "abort_find": 2, "other": 1.5, "nominal": 2, "rebuild": 2, "tick": 0, "reconf": 3},
    "C02": {"find": 2, "redesign": 1, "abort_find": 1, "nominal": 1, "rebuild": 1, "reconf": 1},
    "C05": {"find": 2, "redesign": 1, "abort_find": 1, "nominal": 1, "rebuild": 1, "ghe_new": 2, "size": 1, "regen": 1, "sim": 1},
    "C20": {"find": 1, "twin": 4, "redesign": 1, "other": 2, "reconf": 2},
    "C17": {"find": 1},
}
CHEAP_METHODS = ["NEARSQUARE", "RECTANGLE", "NEARSQUARE", "RECTANGLE", "BIRECTANGLE"]
ALL_METHODS_WEIGHTED = ["NEARSQUARE", "NEARSQUARE", "RECTANGLE", "RECTANGLE", "BIRECTANGLE", "BIRECTANGLE", "BIZONEDRECTANGLE",
                        "BIRECTANGLECONSTRAINED", "ROWWISE"]


def draw_plan(rng: random.Random, prop: str, tier: str = "quick", methods=None, max_ops=None, target=None) -> dict:
    methods = methods or ALL_METHODS_WEIGHTED
    if prop == "C12" and target is None:
        target = rng.choices(["bracket", "tiny", "huge", "clamp_min"], [0.35, 0.2, 0.15, 0.3])[0]
    months = None
    if prop == "C19":
        # the time-labelling statement reaches 30 years: long horizons are over-represented here (hybrid steps stay ~O(100))
        months = rng.choice([12, 12, 24, 36, 60, 120, 240, 300, 360])
    cfg = gen.draw_cfg(rng, methods=methods, target=target, months=months)
    if prop in ("C12", "C02", "C05") and cfg["target"] in ("tiny", "huge"):
        cfg["simulation"]["continue_if_design_unmet"] = rng.random() < 0.75
    cfg2 = gen.draw_cfg(rng, methods=CHEAP_METHODS, months=12)
    variant = make_variant(rng, cfg)
    w = WEIGHTS[prop]
    n_ops = rng.randint(2, max_ops or (9 if prop == "C13" else 5))
    order = list(gen.SETTERS)
    rng.shuffle(order)
    decoys = []
    for name in gen.SETTERS:
        if rng.random() < 0.25:
            decoys.append(name)
    rng.shuffle(decoys)
    start_at_variant = "reconf" in w and rng.random() < 0.3
    ops = [{"op": "build", "mgr": "A", "order": order, "decoys": decoys, "cfg_key": "variant" if start_at_variant else "base"},
           {"op": "find", "mgr": "A"}]
    if start_at_variant:
        ops.append({"op": "reconf", "mgr": "A", "to": "base"})
    kinds = [k for k, v in w.items() if v > 0]
    weights = [w[k] for k in kinds]
    hourly_ok = cfg["simulation"]["num_months"] <= 24
    lo, hi = cfg["simulation"]["min_height"], cfg["simulation"]["max_height"]
    for _ in range(n_ops):
        k = rng.choices(kinds, weights)[0]
        if k == "sim":
            ops.append({"op": "sim", "mgr": "A", "method": "HYBRID", "H": "current" if rng.random() < 0.3 else gen.r3(rng.uniform(lo, hi))})
        elif k == "sim_hourly":
            if not hourly_ok:
                continue
            # ("current": at the height the object already has, e.g. the sized one - the other method at the *same* height)
            ops.append({"op": "sim", "mgr": "A", "method": "HOURLY", "H": "current" if rng.random() < 0.5 else gen.r3(rng.uniform(lo, hi))})
        elif k == "sim_out":
            h = rng.choice([lo * rng.uniform(0.78, 0.97), hi * rng.uniform(1.03, 1.25)])
            ops.append({"op": "sim", "mgr": "A", "method": "HYBRID", "H": gen.r3(h), "out_of_window": True})
        elif k == "abort_find":
            ops.append({"op": "abort_find", "mgr": "A", "site": rng.choice(["gfunc", "simulate"]), "k": rng.randint(1, 14),
                        "redesign": rng.random() < 0.5})
            ops.append({"op": "find", "mgr": "A"})
        elif k == "abort_size":
            site = rng.choice(["simulate", "sts"])
            ops.append({"op": "abort_size", "mgr": "A", "site": site, "k": rng.randint(1, 8) if site == "simulate" else rng.randint(1, 3000)})
            ops.append({"op": "size", "mgr": "A"})
        elif k == "abort_sim":
            # simulate() interrupted inside the short-time-step computation, then the very same call again
            hh = gen.r3(rng.uniform(lo, hi))
            ops.append({"op": "abort_sim", "mgr": "A", "method": "HYBRID", "H": hh, "k": rng.randint(1, 900)})
            ops.append({"op": "sim", "mgr": "A", "method": "HYBRID", "H": hh})
        elif k == "late_setter":
            # set_simulation_parameters (other limits) *after* set_design, then search and report without a new set_design
            ops.append({"op": "late_setter", "mgr": "A"})
            ops.append({"op": "find", "mgr": "A"})
            ops.append({"op": "report", "mgr": "A", "dir": f"r{len(ops)}", "suffix": ""})
        elif k == "deferred_report":
            ops.append({"op": "deferred_report", "mgr": "A", "dir": f"d{len(ops)}", "move_on": rng.choice(["reconf", "reconf", "sim", "nominal"])})
        elif k == "poke":
            ops.append({"op": "poke", "mgr": "A", "setter": rng.choice(gen.SETTERS + ["borehole", "borehole", "design"])})
            if prop in ("C12", "C19", "C13") and rng.random() < 0.6:
                # ... and the previous case is saved right afterwards
                ops.append({"op": "report", "mgr": "A", "dir": f"r{len(ops)}", "suffix": "", "rewrite": rng.random() < 0.3})
        elif k == "nominal":
            ops.append({"op": "nominal", "mgr": "A", "height": gen.r3(rng.uniform(20.0, 400.0))})
        elif k == "tick":
            ops.append({"op": "tick", "dt": rng.choice([1.0, 3600.0, 86400.0 * 40, -5.0, -86400.0, 1e9])})
        elif k == "report":
            rep = {"op": "report", "mgr": "A", "dir": f"r{len(ops)}", "suffix": rng.choice(["", "", "_x"]),
                   "other_prepares_in_between": rng.random() < 0.6, "rewrite": rng.random() < 0.35,
                   "retry_write_only": rng.random() < 0.5}
            if rng.random() < 0.3:
                # first attempt hits an I/O error somewhere in the six files, then the report is simply requested again
                kind = rng.choice(["open_w", "write", "close", "mkdir"])
                rep["io_fault_first_attempt"] = {"kind": kind, "nth": {"open_w": rng.randint(1, 6), "close": rng.randint(1, 6),
                                                                       "mkdir": 1, "write": rng.choice([1, 2, rng.randint(3, 9000)])}[kind],
                                                 "partial": True, "frac": round(rng.random(), 3), "errno": 28}
            ops.append(rep)
        elif k == "rebuild":
            o2 = list(gen.SETTERS)
            rng.shuffle(o2)
            ops.append({"op": "build", "mgr": "A", "order": o2, "decoys": [n for n in gen.SETTERS if rng.random() < 0.2]})
            ops.append({"op": "find", "mgr": "A"})
        elif k == "twin":
            ops.append({"op": "twin", "mgr": "A"})
        elif k == "pristine":
            ops.append({"op": "find", "mgr": "A"})
            ops.append({"op": "pristine", "mgr": "A"})
        elif k == "ghe_new":
            # a stand-alone field object (live single-height g-function until `regen`), then a burst of calls on it
            ops.append({"op": "ghe_new", "mgr": "G", "construct_at": rng.choice(["max", "max", "min", "mid"])})
            if rng.random() < 0.4:
                # the live-g-function flow: size with the single-height curve, refresh the g-functions, size again
                burst = rng.choice([["size", "regen", "size"], ["sim", "size", "regen", "size", "sim"],
                                    ["size", "sim", "regen", "sim", "size"], ["abort_size", "regen", "size"]])
            else:
                burst = [rng.choice(["sim", "sim", "size", "regen", "sim_hourly" if hourly_ok else "sim", "abort_size", "abort_sim"])
                         for _ in range(rng.randint(2, 5))]
            for kk in burst:
                if kk == "sim":
                    ops.append({"op": "sim", "mgr": "G", "method": "HYBRID", "H": gen.r3(rng.uniform(lo, hi))})
                elif kk == "sim_hourly":
                    ops.append({"op": "sim", "mgr": "G", "method": "HOURLY", "H": gen.r3(rng.uniform(lo, hi))})
                elif kk == "abort_sim":
                    hh = gen.r3(rng.uniform(lo, hi))
                    ops.append({"op": "abort_sim", "mgr": "G", "method": "HYBRID", "H": hh, "k": rng.randint(1, 900)})
                    ops.append({"op": "sim", "mgr": "G", "method": "HYBRID", "H": hh})
                elif kk == "abort_size":
                    site = rng.choice(["simulate", "sts"])
                    ops.append({"op": "abort_size", "mgr": "G", "site": site,
                                "k": rng.randint(1, 8) if site == "simulate" else rng.randint(1, 3000)})
                    ops.append({"op": "size", "mgr": "G"})
                else:
                    ops.append({"op": kk, "mgr": "G"})
        elif k == "reconf":
            # leave to the variant and come back: the history ends in the base configuration again
            ops.append({"op": "reconf", "mgr": "A", "to": "variant"})
            if rng.random() < 0.8:
                ops.append({"op": "reconf", "mgr": "A", "to": "base"})
        elif k == "other":
            ops.append({"op": "other", "cfg_key": rng.choice(["cfg2", "variant", "variant"])})
        else:
            ops.append({"op": k, "mgr": "A"})
    if prop in ("C13", "C02") and rng.random() < (0.1 if prop == "C13" else 0.25):
        # fail-then-retry: a capped search that ends in "Search failed." (loads far too large, policy off), then only the
        # loads are replaced on the same manager by ones that still need more boreholes than the cap allows
        m2 = rng.choice(["NEARSQUARE", "RECTANGLE", "BIRECTANGLE", "BIRECTANGLE", "BIZONEDRECTANGLE"])
        cfg = gen.draw_cfg(rng, methods=[m2], target="huge", months=12)
        cap = rng.randint(3, 12)
        cfg["simulation"]["max_boreholes"] = cap
        cfg["simulation"]["continue_if_design_unmet"] = False
        variant = copy.deepcopy(cfg)
        variant["loads"]["amp"] = gen.amp_for(cfg, cap * rng.uniform(1.1, 2.5), cfg["simulation"]["max_height"])
        variant["variant_of"] = ["loads"]
        ops = [{"op": "build", "mgr": "A", "order": order, "decoys": [], "cfg_key": "base"}, {"op": "find", "mgr": "A"},
               {"op": "reconf", "mgr": "A", "to": "variant"}]
        if rng.random() < 0.5:
            ops.append({"op": "redesign", "mgr": "A"})
    elif prop == "C02" and rng.random() < 0.2:
        # capped run first, then the same lot without a cap and with loads far beyond the land (policy on): the second run must
        # still return the largest candidate of the whole lot
        cfg = gen.draw_cfg(rng, methods=["NEARSQUARE", "NEARSQUARE", "RECTANGLE"], target="huge", months=12)
        cfg["simulation"]["max_boreholes"] = None
        cfg["simulation"]["continue_if_design_unmet"] = True
        variant = copy.deepcopy(cfg)
        variant["simulation"]["max_boreholes"] = rng.randint(3, 12)
        variant["variant_of"] = ["simulation.max_boreholes"]
        variant.pop("target", None)
        ops = [{"op": "other", "cfg_key": "variant"}, {"op": "build", "mgr": "A", "order": order, "decoys": [], "cfg_key": "base"},
               {"op": "find", "mgr": "A"}]
    elif prop == "C13" and rng.random() < 0.07:
        # constrained pair (the mutable default keep_contour=[True, False] named in the property's anchors): a polygon-constrained
        # design without no-go zones runs first, then one whose no-go wall lies on the centre line of the lot (grid points of
        # every odd row count fall exactly on its contour), compared with a pristine interpreter
        for _ in range(50):
            cfg = gen.draw_cfg(rng, methods=["BIRECTANGLECONSTRAINED"], months=12, target="bracket")
            ng = cfg["geometry"]["no_go_boundaries"]
            xs = [q[0] for q in cfg["geometry"]["property_boundary"]]
            ys = [q[1] for q in cfg["geometry"]["property_boundary"]]
            mx, my = (min(xs) + max(xs)) / 2.0, (min(ys) + max(ys)) / 2.0
            if ng and any(abs(q[0] - mx) < 0.02 or abs(q[1] - my) < 0.02 for q in ng[0]):
                break
        variant = copy.deepcopy(cfg)
        variant["geometry"]["no_go_boundaries"] = []
        variant["variant_of"] = ["geometry.no_go_boundaries"]
        variant.pop("target", None)
        ops = [{"op": "other", "cfg_key": "variant"}, {"op": "build", "mgr": "A", "order": order, "decoys": [], "cfg_key": "base"},
               {"op": "find", "mgr": "A"}, {"op": "pristine", "mgr": "A"}]
    elif prop == "C13" and rng.random() < 0.2:
        # leak probe: a near-identical design (exactly one section group differs) runs first in this process - on this
        # manager or on another one - and the base design is then compared with a pristine interpreter's
        variant = make_variant(rng, cfg, k=1)
        if rng.random() < 0.5:
            ops = [{"op": "build", "mgr": "A", "order": order, "decoys": [], "cfg_key": "variant"}, {"op": "find", "mgr": "A"},
                   {"op": "reconf", "mgr": "A", "to": "base"}, {"op": "pristine", "mgr": "A"}]
        else:
            ops = [{"op": "other", "cfg_key": "variant"}, {"op": "other", "cfg_key": "variant2"},
                   {"op": "build", "mgr": "A", "order": order, "decoys": decoys, "cfg_key": "base"},
                   {"op": "find", "mgr": "A"}, {"op": "pristine", "mgr": "A"}]
    elif prop == "C13" and any(o["op"] in ("other", "reconf") for o in ops) and rng.random() < 0.5:
        # histories in which a process-global leak is plausible end with a comparison against a pristine interpreter
        ops.append({"op": "find", "mgr": "A"})
        ops.append({"op": "pristine", "mgr": "A"})
    if prop in ("C01", "C05") and any(o["op"] in ("other", "reconf") for o in ops) and rng.random() < 0.6:
        # the returned design re-simulated by a brand-new evaluator in a pristine interpreter (an in-process re-simulation is
        # served by the same process-wide caches as the search was)
        if ops[-1]["op"] not in ("find", "reconf", "redesign", "nominal"):
            ops.append({"op": "find", "mgr": "A"})
        ops.append({"op": "pristine_resim", "mgr": "A"})
    if prop in ("C12", "C19") and not any(o["op"] == "report" for o in ops):
        ops.append({"op": "report", "mgr": "A", "dir": "rend", "suffix": "", "other_prepares_in_between": rng.random() < 0.6,
                    "rewrite": rng.random() < 0.35})
    if prop == "C20" and not any(o["op"] == "twin" for o in ops):
        ops.append({"op": "twin", "mgr": "A"})
    variant2 = make_variant(rng, cfg, k=1)
    return {"engine": "E1", "property": prop, "cfg": cfg, "cfg2": cfg2, "variant": variant, "variant2": variant2, "ops": ops,
            "clock": {"start": float(rng.randrange(0, 10 ** 8)), "step": rng.choice([0.25, 1.0, 1800.0])}}


GROUPS = {"soil": ["soil"], "grout": ["grout"], "fluid": ["fluid"], "pipe_borehole": ["pipe", "borehole"],
          "simulation": ["simulation"], "geometry": ["geometry"], "loads": ["loads"], "design": ["design"]}


def make_variant(rng: random.Random, cfg: dict, k=None) -> dict:
    """cfg with 1-3 section groups replaced by those of another draw for the same design method: the 'almost the same
    design' that a cache keyed on part of the state, or an object shared between calls, would confuse with cfg."""
    other = gen.draw_cfg(rng, methods=[cfg["geometry"]["method"]], pipes=[cfg["pipe"]["arrangement"]],
                         months=cfg["simulation"]["num_months"])
    names = list(GROUPS)
    k = k or rng.choice([1, 1, 1, 1, 2, 3])
    chosen = rng.sample(names, k)
    v = copy.deepcopy(cfg)
    if k == 1 and rng.random() < 0.5 and chosen[0] not in ("geometry", "pipe_borehole", "loads"):
        # the finest variant: exactly one number (or flag) of one section differs - what a cache whose key forgets
        # a single field would confuse with the base configuration
        sec = GROUPS[chosen[0]][0]
        keys = [kk for kk in cfg[sec] if cfg[sec][kk] != other[sec].get(kk, cfg[sec][kk]) and kk not in ("fluid_name",)]
        if sec == "simulation":
            keys = [kk for kk in keys if kk in ("num_months", "max_eft", "min_eft", "max_boreholes", "continue_if_design_unmet")]
            if "num_months" in cfg[sec] and rng.random() < 0.5:
                other[sec]["num_months"] = rng.choice([m for m in (12, 24, 36, 60) if m != cfg[sec]["num_months"]])
                keys = ["num_months"]
        if keys:
            kk = rng.choice(sorted(keys))
            v[sec][kk] = copy.deepcopy(other[sec][kk])
            v["variant_of"] = [f"{sec}.{kk}"]
            v.pop("target", None)
            return v
    for g in chosen:
        for sec in GROUPS[g]:
            v[sec] = copy.deepcopy(other[sec])
    if "geometry" in chosen and rng.random() < 0.5 and "length" in cfg["geometry"]:
        # same lot, only larger / smaller
        v["geometry"] = copy.deepcopy(cfg["geometry"])
        f = rng.choice([0.5, 0.7, 1.6, 2.2])
        v["geometry"]["length"] = gen.r3(cfg["geometry"]["length"] * f)
        if "width" in v["geometry"]:
            v["geometry"]["width"] = gen.r3(cfg["geometry"]["width"] * f)
        gg = v["geometry"]
        if "b_min" in gg:
            sides = [gg["length"], gg.get("width", gg["length"])]
            bms = [gg[x] for x in ("b_max", "b_max_x", "b_max_y") if x in gg]
            if not all(gen.rows_ok(sd, gg["b_min"], bm) for sd in sides for bm in bms):
                v["geometry"] = copy.deepcopy(other["geometry"])
    if "simulation" in chosen and rng.random() < 0.5:
        # only the optional members differ
        v["simulation"] = copy.deepcopy(cfg["simulation"])
        v["simulation"]["max_boreholes"] = None if cfg["simulation"]["max_boreholes"] else rng.randint(3, 30)
        v["simulation"]["continue_if_design_unmet"] = not cfg["simulation"]["continue_if_design_unmet"]
    v["variant_of"] = sorted(chosen)
    v.pop("target", None)
    return v


def plan_cfg(plan: dict, key: str) -> dict:
    c = plan["cfg"] if key in (None, "base") else plan[key]
    c = {k: v for k, v in c.items() if k not in ("variant_of", "target")}
    return c


# ------------------------------------------------------------------------------------------ observation helpers
def _hex(x):
    return float(x)


def fp_find(mgr) -> dict:
    s = mgr._search
    g = s.ghe
    coords = [[float(c[0]), float(c[1])] for c in g.gFunction.bore_locations]
    return {"nbh": len(coords), "coords": coords, "H": float(g.bhe.b.H), "max": float(max(g.hp_eft)),
            "min": float(min(g.hp_eft)), "hp": [float(x) for x in g.hp_eft], "dTb": [float(x) for x in g.dTb],
            "tracker": plain(s.searchTracker), "times": [float(x) for x in g.times],
            "spec": str(g.fieldSpecifier)}


def _quiet():
    return contextlib.ExitStack()


class Quiet:
    """stdout/stderr of the library are captured (the escape message of C01 is read from it)."""

    def __enter__(self):
        self.out = io.StringIO()
        self._cm = contextlib.ExitStack()
        self._cm.enter_context(contextlib.redirect_stdout(self.out))
        self._cm.enter_context(contextlib.redirect_stderr(io.StringIO()))
        w = warnings.catch_warnings()
        self._cm.enter_context(w)
        warnings.simplefilter("ignore")
        return self

    def __exit__(self, *a):
        return self._cm.__exit__(*a)


def do_find(mgr) -> dict:
    """find_design with outcome capture: {'ok': fp} | {'exc': type, 'msg':...}; never raises except InjectedAbort."""
    with Quiet() as q:
        try:
            mgr.find_design()
            out = {"ok": fp_find(mgr)}
        except seams.InjectedAbort:
            raise
        except Exception as e:  # noqa: BLE001
            out = {"exc": type(e).__name__, "msg": str(e)[:200], "trace": traceback.format_exc(limit=5)}
    out["stdout"] = q.out.getvalue()
    out["escape"] = "configuration selected." in out["stdout"]
    return out


# ------------------------------------------------------------------------------------------ reference model
class Reference:
    """fresh(cfg) and fresh_ghe(cfg, field): brand-new objects, canonical construction order, memoised per worker."""

    def __init__(self):
        self.fp = {}
        self.files = {}

    def fresh(self, cfg) -> dict:
        key = digest(cfg)
        if key not in self.fp:
            mgr = gen.build_manager(cfg)
            out = do_find(mgr)
            self.fp[key] = ({k: v for k, v in out.items() if k in ("ok", "exc", "msg")}, mgr)
        return self.fp[key][0]

    def fresh_mgr(self, cfg):
        self.fresh(cfg)
        return self.fp[digest(cfg)][1]

    @staticmethod
    def fresh_ghe(cfg, coords, spec, flow_override=None, h0=None, regen=True):
        """A GHE for `coords` built the way the search classes build the returned one (constructed at height h0 — the
        height the object under test was constructed at, max_height by default — then g-functions for min/avg/max
        height) on brand-new component objects.  No simulate() has ever been called on it."""
        from ghedesigner.enums import FlowConfigType, TimestepType
        from ghedesigner.search_routines import Bisection1D

        mgr = gen.build_manager(cfg)
        d = mgr._design
        flow_rate, flow_type = d.V_flow, d.flow_type
        if flow_override:
            flow_rate, flow_type = flow_override[0], FlowConfigType[flow_override[1]]
        coords = [list(c) for c in coords]
        with Quiet():
            s = Bisection1D([coords], [spec], flow_rate, d.borehole, d.bhe_type, d.fluid, d.pipe, d.grout, d.soil, d.sim_params,
                            d.hourly_extraction_ground_loads, method=TimestepType.HYBRID, flow_type=flow_type, search=False,
                            field_type="reference")
            s.initialize_ghe(coords, d.sim_params.max_height if h0 is None else h0, spec)
            if regen:
                s.ghe.compute_g_functions()
        return s.ghe


# ------------------------------------------------------------------------------------------ execution
class DegeneratePlan(Exception):
    pass


class Ctx:
    def __init__(self, plan):
        self.plan = plan
        self.prop = plan["property"]
        self.log = EventLog()
        self.mgrs = {}
        self.state = {}  # per manager: {"cfg", "last": outcome dict or None, "aborted": bool}
        self.count = {}
        self.sets = {"abstract_states": set(), "transitions": set(), "outcome_classes": set()}
        self.viols = []
        self.ref = REF
        self.sim_months = 0.0
        self.shape = []

    def bump(self, k, n=1):
        self.count[k] = self.count.get(k, 0) + n

    def violation(self, v: Violation, op_index: int, feats=None):
        d = v.as_dict()
        f = {"site": v.site, "method": self.plan["cfg"]["geometry"]["method"]}
        f.update(feats or {})
        d["features"] = f
        d["op_index"] = op_index
        if not any(x["vclass"] == d["vclass"] and x["features"] == d["features"] for x in self.viols):
            self.viols.append(d)


REF = Reference()
ABORTS = seams.AbortPlan()
GMEMO = seams.GFuncMemo(ABORTS)


def worker_init():
    """Called once per worker process: install the long-lived seams."""
    import os

    GMEMO.enabled = os.environ.get("VERIF_NO_MEMO") != "1"
    GMEMO.install()
    # remember the height each GHE was constructed at (its HybridLoad is built for that height and never refreshed),
    # so that the fresh reference object can be constructed the same way
    from ghedesigner.ground_heat_exchangers import GHE

    if not getattr(GHE.__init__, "_verif_wrapped", False):
        orig = GHE.__init__

        def init(self, *a, **kw):
            borehole = a[4] if len(a) > 4 else kw["borehole"]
            self._verif_h0 = borehole.H
            orig(self, *a, **kw)

        init._verif_wrapped = True
        GHE.__init__ = init


def abstract_state(ctx: Ctx, name: str) -> tuple:
    mgr = ctx.mgrs.get(name)
    if mgr is None:
        return ("none",)
    cfg = ctx.state[name]["cfg"]
    sim = cfg["simulation"]
    s = mgr._search
    has_search = s is not None and getattr(s, "ghe", None) is not None
    b = mgr._borehole
    h = b.H
    if h == cfg["borehole"]["height"]:
        hc = "nominal"
    elif h == sim["min_height"]:
        hc = "min"
    elif h == sim["max_height"]:
        hc = "max"
    elif sim["min_height"] < h < sim["max_height"]:
        hc = "interior"
    else:
        hc = "out_of_window"
    times = "none"
    interp = False
    stored = 0
    if has_search:
        g = s.ghe
        n = len(g.times)
        times = "empty" if n == 0 else ("hourly" if n >= 8760 else "hybrid")
        interp = len(g.gFunction.interpolation_table) > 0
        stored = len(g.gFunction.g_lts)
    return (mgr._design is not None, has_search, hc, times, interp, stored, mgr.results is not None,
            bool(ctx.state[name].get("aborted")))


def outcome_class(cfg, out) -> str:
    if "exc" in out:
        return f"raised:{out['exc']}"
    sim = cfg["simulation"]
    h = out["ok"]["H"]
    if out.get("escape"):
        return "unmet_continued_max" if h == sim["max_height"] else "unmet_continued_min"
    if h == sim["min_height"]:
        return "clamped_min"
    if h == sim["max_height"]:
        return "clamped_max"
    return "bracketed"


def execute(plan: dict) -> Ctx:
    ctx = Ctx(plan)
    clock = seams.VirtualClock(plan["clock"]["start"], plan["clock"]["step"])
    ctx.clock = clock
    ABORTS.disarm()
    with seams.scratch_dir("ghe-e1") as root, seams.clock_installed(clock), seams.simulate_abortable(ABORTS):
        ctx.root = Path(root)
        for i, op in enumerate(plan["ops"]):
            name = op.get("mgr", "A")
            st = abstract_state(ctx, name)
            ctx.sets["abstract_states"].add(repr(st))
            ctx.sets["transitions"].add(repr((st, op["op"] + (":" + op.get("method", "") if op["op"] == "sim" else ""))))
            ctx.bump(f"op:{op['op']}")
            ctx.shape.append(op["op"])
            try:
                OPS[op["op"]](ctx, i, op)
            except DegeneratePlan:
                ctx.degenerate = True
                break
            except seams.InjectedAbort as e:
                # an abort that escapes from an operation that was not meant to be aborted: harness problem
                raise RuntimeError(f"stray InjectedAbort in op {i} {op}: {e}")
    ABORTS.disarm()
    ctx.virtual_clock_s = clock.now - plan["clock"]["start"]
    return ctx


# ---- operations
def op_build(ctx: Ctx, i, op):
    cfg = plan_cfg(ctx.plan, op.get("cfg_key"))
    cfg2 = ctx.plan["cfg2"]
    decoys = []
    for n in op.get("decoys", []):
        if n == "geometry" and cfg2["geometry"]["method"] == "NEARSQUARE":
            continue
        decoys.append((n, cfg2))
    try:
        with Quiet():
            mgr = gen.build_manager(cfg, order=op.get("order"), decoys=decoys)
    except Exception as e:  # noqa: BLE001
        # the API (a design constructor) rejects the seeded lot, e.g. a polygon on which no candidate field fits:
        # degenerate input by every claimed property's quantifier; the plan ends here
        ctx.bump(f"configuration_rejected_by_api:{type(e).__name__}")
        ctx.log.add("build", [op.get("order"), op.get("decoys"), op.get("cfg_key")], ["rejected", type(e).__name__])
        raise DegeneratePlan(str(e))
    ctx.mgrs[op["mgr"]] = mgr
    ctx.state[op["mgr"]] = {"cfg": cfg, "last": None, "aborted": False}
    ctx.log.add("build", [op.get("order"), op.get("decoys"), op.get("cfg_key")], None)
    if decoys:
        ctx.bump("probe:setter_called_with_decoy_then_real_value")


def _check_find(ctx: Ctx, i, op, out, cfg):
    """Oracles evaluated after every completed find-like operation."""
    prop = ctx.prop
    oc = outcome_class(cfg, out)
    ctx.bump("finds_completed_with_design" if "ok" in out else "finds_raised")
    if "exc" in out and out["exc"] != "ValueError":
        ctx.bump(f"finds_raised_unexpected_type:{out['exc']}")
    ctx.sets["outcome_classes"].add(oc)
    ctx.bump(f"outcome:{oc}")
    method = cfg["geometry"]["method"]
    ctx.bump(f"method:{method}")
    ctx.bump(f"pipe:{cfg['pipe']['arrangement']}")
    ctx.bump(f"flow:{cfg['design']['flow_type']}")
    if "ok" in out:
        ctx.sim_months += cfg["simulation"]["num_months"] * len(ctx.mgrs[op["mgr"]]._search.searchTracker)
    if prop == "C13":
        ref = ctx.ref.fresh(cfg)
        a = out.get("ok") or {"exc": out["exc"], "msg": out["msg"]}
        b = ref.get("ok") or {"exc": ref["exc"], "msg": ref["msg"]}
        same, where = close(a, b)
        if not same:
            diff = [k for k in set(a) | set(b) if not close(a.get(k), b.get(k))[0]]
            detail = f"after {ctx.shape} the result differs from a fresh manager in {sorted(diff)} (first at {where})"
            if "H" in diff:
                detail += f" (H {a.get('H')!r} vs {b.get('H')!r})"
            if "nbh" in diff:
                detail += f" ({a.get('nbh')} vs {b.get('nbh')} boreholes)"
            if "exc" in diff:
                detail += f" ({a.get('exc')}:{a.get('msg')} vs {b.get('exc')}:{b.get('msg')})"
            ctx.violation(Violation("C13", "find_differs_from_fresh", detail, site=f"find_after:{op['op']}"), i,
                          {"after": _history_kind(ctx)})
    if prop in ("C01", "C05", "C02", "C20") and "exc" in out and out["exc"] != "ValueError":
        if prop == "C02":
            ctx.violation(Violation("C02", "exception_type", f"{out['exc']}: {out['msg']} ({method})\n{out.get('trace', '')}",
                                    site=f"{method}:{out['exc']}"), i, {"mode": "real"})
    if "ok" not in out:
        return
    mgr = ctx.mgrs[op["mgr"]]
    g = mgr._search.ghe
    sim = cfg["simulation"]
    h = g.bhe.b.H
    nbh = len(g.gFunction.bore_locations)
    if prop == "C02":
        so = out.get("stdout", "")
        if "Smallest available configuration selected." in so and method in ("NEARSQUARE", "RECTANGLE"):
            ctx.bump("probe:unmet_too_small_continued_real_physics")
            dom = mgr._design.coordinates_domain
            if h != sim["min_height"] or nbh != len(dom[0]):
                ctx.violation(Violation("C02", "unmet_continue_wrong_pick", f"too_small (real physics): returned {nbh}@{h!r}, want "
                                                                          f"{len(dom[0])}@{sim['min_height']}", site=f"{method}:too_small"),
                              i, {"mode": "real"})
        if "Largest available configuration selected." in so and method in ("NEARSQUARE", "RECTANGLE", "ROWWISE"):
            ctx.bump("probe:unmet_too_large_continued_real_physics")
            if h != sim["max_height"]:
                ctx.violation(Violation("C02", "unmet_continue_wrong_pick", f"too_large (real physics): returned {nbh}@{h!r}, want "
                                                                          f"height {sim['max_height']}", site=f"{method}:too_large"),
                              i, {"mode": "real"})
            if method != "ROWWISE":
                dom = mgr._design.coordinates_domain
                cap = sim["max_boreholes"]
                want_n = max(len(c) for c in dom if cap is None or len(c) < cap)
                if method == "NEARSQUARE":
                    # independent of the (possibly shared, possibly already trimmed) candidate list: n x n and n x (n+1) grids
                    # for n = 1 .. floor(length / b) + 1
                    nn = int(math.floor(cfg["geometry"]["length"] / cfg["geometry"]["b"])) + 1
                    sizes = [k * k for k in range(1, nn + 1)] + [k * (k + 1) for k in range(1, nn + 1)]
                    want_n = max(x for x in sizes if cap is None or x < cap)
                if nbh != want_n:
                    ctx.violation(Violation("C02", "unmet_continue_wrong_pick", f"too_large (real physics): returned {nbh} boreholes, "
                                                                              f"largest allowed is {want_n}", site=f"{method}:too_large"),
                                  i, {"mode": "real"})
        if not (sim["min_height"] <= h <= sim["max_height"]):
            ctx.violation(Violation("C02", "height_out_of_bounds", f"H={h!r} outside [{sim['min_height']},{sim['max_height']}]",
                                    site=method), i, {"mode": "real"})
        cap = sim["max_boreholes"]
        if cap is not None and method in ("NEARSQUARE", "RECTANGLE", "BIRECTANGLE", "BIZONEDRECTANGLE") and nbh > cap:
            ctx.violation(Violation("C02", "cap_exceeded", f"{nbh} boreholes > max_boreholes={cap} ({method})", site=method), i,
                          {"mode": "real"})
    if prop in ("C01", "C05"):
        from ghedesigner.enums import TimestepType

        with Quiet():
            mx, mn = g.simulate(method=TimestepType.HYBRID)
        ctx.log.add("resim", h, [mx, mn])
        over = mx - sim["max_eft"]
        under = sim["min_eft"] - mn
        exc_t = max(over, under)
        jump = False
        if prop in ("C01", "C05") and not out["escape"] and exc_t > TOL and h < sim["max_height"]:
            # is this the infeasible side of a jump of the (discontinuous) excess?  One millimetre higher it is feasible.
            h_up = min(sim["max_height"], h + max(1.0e-3, 20.0 * (1.0e-6 + 1.0e-6 * h)))
            g.bhe.b.H = h_up
            with Quiet():
                mx2, mn2 = g.simulate(method=TimestepType.HYBRID)
            e_up = max(mx2 - sim["max_eft"], sim["min_eft"] - mn2)
            g.bhe.b.H = h
            with Quiet():
                g.simulate(method=TimestepType.HYBRID)
            jump = e_up <= TOL
        ctx.state[op["mgr"]]["c01_jump"] = jump
        if prop == "C01" and not out["escape"] and not jump and any(x in ctx.shape for x in ("reconf", "other", "nominal", "rebuild", "poke")):
            # ... and by an evaluator built from the *requested* configuration (the returned object could be consistent
            # with itself and still belong to an earlier configuration of this manager)
            rg = ctx.ref.fresh_ghe(cfg, g.gFunction.bore_locations, g.fieldSpecifier, h0=g._verif_h0)
            r2 = _sim_result(rg, "HYBRID", h)
            ctx.bump("c01_designs_checked_with_fresh_evaluator")
            if "exc" not in r2:
                e_f = max(r2["max"] - sim["max_eft"], sim["min_eft"] - r2["min"])
                if e_f > TOL:
                    ctx.violation(Violation("C01", "returned_design_infeasible",
                                            f"{nbh} bh @ {h:.4f} m simulated by a fresh evaluator for the requested configuration: "
                                            f"excess {e_f:.5f} K > 1e-3 ({method}, {oc}) after {ctx.shape}", site=f"{method}:fresh"),
                                  i, {"after": _history_kind(ctx)})
        if prop == "C01" and not out["escape"]:
            ctx.bump("c01_designs_checked")
            if exc_t > TOL:
                if jump:
                    ctx.bump("probe:infeasible_side_of_a_jump_returned")
                ctx.violation(Violation("C01", "returned_design_infeasible",
                                        f"{nbh} bh @ {h:.4f} m: max EFT {mx:.4f} (limit {sim['max_eft']}), min EFT {mn:.4f} "
                                        f"(limit {sim['min_eft']}): excess {exc_t:.5f} K > 1e-3 ({method}, {oc})"
                                        + (" - the infeasible side of a jump of the excess: one millimetre higher it is feasible" if jump else ""),
                                        site="infeasible_side_of_jump" if jump else f"{method}:{oc}"), i,
                              {"after": _history_kind(ctx)} if not jump else {})
        if prop == "C05" and not out["escape"]:
            ctx.bump("c05_designs_checked")
            over, e2 = _oversized(g, sim, h, exc_t)
            if e2 is not None and not over:
                ctx.bump("probe:root_at_a_jump_of_the_excess")
            if over:
                ctx.violation(Violation("C05", "height_oversized", f"excess({nbh}@{h:.4f})={exc_t:.5f} < -1e-3 with H>min, and "
                                                                    f"still {e2:.5f} one millimetre lower ({method})", site=method),
                              i, {"mode": "real"})
            if h < sim["max_height"] and exc_t > TOL:
                ctx.violation(Violation("C05", "height_not_root_infeasible", f"excess({nbh}@{h:.4f})={exc_t:.5f} > 1e-3 with "
                                                                              f"H<max ({method})" + (" - infeasible side of a jump" if jump else ""),
                                        site="infeasible_side_of_jump" if jump else method), i, {"mode": "real"} if not jump else {})
            total = nbh * h
            for row in mgr._search.searchTracker:
                pass  # the tracker does not carry borehole counts; clause (i) is decided in E3
    if prop == "C20":
        _check_flow_records(ctx, i, cfg, mgr)


def _oversized(g, sim, h, e) -> tuple:
    """The sized height over-satisfies the limits: the excess is below -1e-3 K at the returned height *and still* below
    -1e-3 K a little under it (delta = 1 mm, far above the root solver's 1e-6 tolerances).  The second evaluation is
    needed because the excess is not continuous in the height (the short-time-step model changes its number of time
    steps): brentq then converges to the jump, where |excess| can be tens of mK although no smaller height is feasible."""
    from ghedesigner.enums import TimestepType

    if not (h > sim["min_height"] and e < -TOL):
        return False, None
    delta = max(1.0e-3, 20.0 * (1.0e-6 + 1.0e-6 * h))
    h2 = max(sim["min_height"], h - delta)
    g.bhe.b.H = h2
    with Quiet():
        mx, mn = g.simulate(method=TimestepType.HYBRID)
    e2 = max(mx - sim["max_eft"], sim["min_eft"] - mn)
    g.bhe.b.H = h
    with Quiet():
        g.simulate(method=TimestepType.HYBRID)  # restore the object's state
    return e2 < -TOL, e2


def _history_kind(ctx: Ctx) -> str:
    s = ctx.shape[:-1]
    for k in ("reconf", "abort_find", "nominal", "other", "sim", "size", "regen", "report", "redesign"):
        if k in s:
            return k
    return "plain" if s.count("build") <= 1 else "rebuild"


def find_recorded(ctx: Ctx, mgr) -> dict:
    """do_find with (for C20) every evaluation's flow values recorded; always resets ctx.flow_rec."""
    rec = FlowRecorder() if ctx.prop == "C20" else None
    ctx.flow_rec = None
    with (rec.installed() if rec else contextlib.nullcontext()):
        out = do_find(mgr)
    ctx.flow_rec = rec
    return out


def op_find(ctx: Ctx, i, op):
    name = op["mgr"]
    mgr = ctx.mgrs[name]
    cfg = ctx.state[name]["cfg"]
    if ctx.state[name].get("aborted"):
        ctx.bump("probe:find_started_after_aborted_find")
    if mgr._borehole.H != cfg["borehole"]["height"]:
        ctx.bump("probe:find_started_with_H_not_nominal")
    out = find_recorded(ctx, mgr)
    ctx.state[name]["last"] = out
    ctx.state[name]["aborted"] = False
    ctx.state[name]["touched"] = False
    ctx.log.add("find", op["op"], out.get("ok") or [out.get("exc"), out.get("msg")])
    _check_find(ctx, i, op, out, cfg)


def op_redesign(ctx: Ctx, i, op):
    name = op["mgr"]
    mgr = ctx.mgrs[name]
    cfg = ctx.state[name]["cfg"]
    mgr.set_design(flow_rate=cfg["design"]["flow_rate"], flow_type_str=cfg["design"]["flow_type"])
    op_find(ctx, i, op)


def op_nominal(ctx: Ctx, i, op):
    name = op["mgr"]
    mgr = ctx.mgrs[name]
    cfg = ctx.state[name]["cfg"]
    mgr.set_borehole(height=op["height"], buried_depth=cfg["borehole"]["buried_depth"], diameter=cfg["borehole"]["diameter"])
    mgr.set_design(flow_rate=cfg["design"]["flow_rate"], flow_type_str=cfg["design"]["flow_type"])
    # the reference keeps the original nominal height: the property says it must not matter
    st = ctx.state[name]
    st["cfg"] = cfg
    mgr_cfg_nominal = op["height"]
    ctx.bump("probe:nominal_height_changed")
    out = find_recorded(ctx, mgr)
    st["last"] = out
    st["aborted"] = False
    st["nominal_override"] = mgr_cfg_nominal
    ctx.log.add("nominal", op["height"], out.get("ok") or [out.get("exc"), out.get("msg")])
    _check_find(ctx, i, op, out, cfg)


def op_reconf(ctx: Ctx, i, op):
    """Change the configuration of a live manager by calling only the setters whose section differs, then
    set_design + find_design; the reference is a fresh manager built for the target configuration."""
    name = op["mgr"]
    mgr = ctx.mgrs[name]
    st = ctx.state[name]
    cur = st["cfg"]
    target = plan_cfg(ctx.plan, op["to"])
    changed = []
    try:
        with Quiet():
            for gname, secs in GROUPS.items():
                if any(cur[sec] != target[sec] for sec in secs) or (gname == "pipe_borehole" and st.get("nominal_override")) or (
                        gname == "simulation" and st.get("late_setter")):
                    # (after a late setter the manager holds other simulation parameters than st["cfg"] says: the reconfiguration
                    # must set them again, otherwise the new design would silently adopt the late ones)
                    for sec in secs:
                        if sec != "design":  # the design section is applied by set_design below
                            gen._call_setter(mgr, sec, target, gen._LOADS_CACHE)
                    changed.append(gname)
            mgr.set_design(flow_rate=target["design"]["flow_rate"], flow_type_str=target["design"]["flow_type"])
    except Exception as e:  # noqa: BLE001
        ctx.bump(f"configuration_rejected_by_api:{type(e).__name__}")
        ctx.log.add("reconf", [op["to"], changed], ["rejected", type(e).__name__])
        raise DegeneratePlan(str(e))
    st["cfg"] = target
    st.pop("nominal_override", None)
    st.pop("late_setter", None)
    ctx.bump("probe:manager_reconfigured_between_finds")
    for c in changed:
        ctx.bump(f"reconf_section:{c}")
    out = find_recorded(ctx, mgr)
    st["last"] = out
    st["aborted"] = False
    st["touched"] = False
    ctx.log.add("reconf", [op["to"], changed], out.get("ok") or [out.get("exc"), out.get("msg")])
    _check_find(ctx, i, op, out, target)


def op_abort_find(ctx: Ctx, i, op):
    name = op["mgr"]
    mgr = ctx.mgrs[name]
    cfg = ctx.state[name]["cfg"]
    if op.get("redesign"):
        mgr.set_design(flow_rate=cfg["design"]["flow_rate"], flow_type_str=cfg["design"]["flow_type"])
    ABORTS.arm(op["site"], op["k"])
    fired = False
    ctx.flow_rec = None
    try:
        out = do_find(mgr)
    except seams.InjectedAbort:
        fired = True
        out = None
    finally:
        ABORTS.disarm()
    if fired:
        ctx.bump(f"fault:abort_{op['site']}")
        ctx.state[name]["aborted"] = True
        if mgr._borehole.H != cfg["borehole"]["height"]:
            ctx.bump("probe:abort_landed_with_H_not_nominal")
        ctx.log.add("abort_find", [op["site"], op["k"]], "aborted")
        return
    # the search finished before the k-th call: an ordinary find
    ctx.bump("abort_not_reached")
    if out.get("exc") == "InjectedAbort":
        raise RuntimeError("abort swallowed into outcome")
    ctx.state[name]["last"] = out
    ctx.log.add("find", "abort_not_reached", out.get("ok") or [out.get("exc"), out.get("msg")])
    _check_find(ctx, i, op, out, cfg)


def op_other(ctx: Ctx, i, op):
    cfg2 = plan_cfg(ctx.plan, op.get("cfg_key") or "cfg2")
    if str(op.get("cfg_key")).startswith("variant"):
        ctx.bump("probe:near_identical_design_ran_in_between")
    try:
        with Quiet():
            m2 = gen.build_manager(cfg2)
    except Exception as e:  # noqa: BLE001
        ctx.bump(f"configuration_rejected_by_api:{type(e).__name__}")
        ctx.log.add("other", None, ["rejected", type(e).__name__])
        return
    out = find_recorded(ctx, m2)
    if ctx.prop == "C20" and "ok" in out:
        _check_flow_records(ctx, i, cfg2, m2)
    ctx.flow_rec = None
    ctx.mgrs["B"] = m2
    ctx.state["B"] = {"cfg": cfg2, "last": out, "aborted": False}
    ctx.log.add("other", None, out.get("ok") or [out.get("exc"), out.get("msg")])
    ctx.bump("probe:unrelated_design_ran_in_between")


def op_ghe_new(ctx: Ctx, i, op):
    """A stand-alone GHE for the field A returned (or, without a design, a small grid), built through a search=False
    search object and *not* yet given its three-height g-functions: the 'live g-function' flow."""
    base = ctx.state.get("A")
    cfg = base["cfg"] if base else plan_cfg(ctx.plan, "base")
    sim = cfg["simulation"]
    ga = _ghe_of(ctx, "A")
    if ga is not None:
        coords = [list(map(float, c)) for c in ga.gFunction.bore_locations]
    else:
        coords = [[0.0, 0.0], [0.0, 6.0], [6.0, 0.0], [6.0, 6.0]]
    h0 = {"max": sim["max_height"], "min": sim["min_height"], "mid": gen.r3((sim["max_height"] + sim["min_height"]) / 2)}[
        op.get("construct_at", "max")]
    g = ctx.ref.fresh_ghe(cfg, coords, "standalone", h0=h0, regen=False)
    ctx.ghe_objs = getattr(ctx, "ghe_objs", {})
    ctx.ghe_objs["G"] = {"ghe": g, "cfg": cfg, "regen": False, "coords": coords, "h0": h0}
    ctx.bump("probe:standalone_field_object_created")
    ctx.log.add("ghe_new", [len(coords), h0], None)


def _ghe_of(ctx: Ctx, name):
    if name == "G":
        rec = getattr(ctx, "ghe_objs", {}).get("G")
        return rec["ghe"] if rec else None
    st = ctx.state.get(name)
    if not st or not st["last"] or "ok" not in st["last"] or st.get("aborted"):
        return None
    return ctx.mgrs[name]._search.ghe


def _obj_cfg(ctx: Ctx, name):
    if name == "G":
        return ctx.ghe_objs["G"]["cfg"]
    return ctx.state[name]["cfg"]


def _touch(ctx: Ctx, name):
    if name != "G":
        ctx.state[name]["touched"] = True


def _fresh_like(ctx: Ctx, name, g):
    """A brand-new object equivalent to `g` before any simulate/size was called on it."""
    if name == "G":
        rec = ctx.ghe_objs["G"]
        return ctx.ref.fresh_ghe(rec["cfg"], rec["coords"], "standalone", h0=rec["h0"], regen=rec["regen"])
    return ctx.ref.fresh_ghe(ctx.state[name]["cfg"], g.gFunction.bore_locations, g.fieldSpecifier, h0=g._verif_h0)


def _sim_result(g, method_name, h):
    from ghedesigner.enums import TimestepType

    g.bhe.b.H = h
    with Quiet():
        try:
            mx, mn = g.simulate(method=TimestepType[method_name])
            return {"max": float(mx), "min": float(mn), "hp": [float(x) for x in g.hp_eft], "n": len(g.hp_eft)}
        except seams.InjectedAbort:
            raise
        except Exception as e:  # noqa: BLE001
            return {"exc": type(e).__name__, "msg": str(e)[:160]}


def op_sim(ctx: Ctx, i, op):
    name = op["mgr"]
    g = _ghe_of(ctx, name)
    if g is None:
        ctx.bump("op_skipped_no_design")
        ctx.log.add("sim", op, "skipped")
        return
    cfg = _obj_cfg(ctx, name)
    if op["H"] == "current":
        op = dict(op, H=float(g.bhe.b.H))
        ctx.bump("probe:sim_at_the_height_already_on_the_object")
    n_before = len(g.times)
    kind_before = "empty" if n_before == 0 else ("hourly" if n_before >= 8760 else "hybrid")
    table_built = len(g.gFunction.interpolation_table) > 0
    if op["method"] == "HOURLY" and kind_before == "hybrid":
        ctx.bump("probe:hourly_sim_with_times_left_by_hybrid")
    if op["method"] == "HYBRID" and kind_before == "hourly":
        ctx.bump("probe:hybrid_sim_with_times_left_by_hourly")
    if op.get("out_of_window"):
        ctx.bump("probe:sim_out_of_window_" + ("after_table_built" if table_built else "before_table_built"))
    got = _sim_result(g, op["method"], op["H"])
    ctx.sim_months += cfg["simulation"]["num_months"]
    ctx.log.add("sim", [op["method"], op["H"]], got)
    _touch(ctx, name)
    if ctx.prop == "C13":
        rg = _fresh_like(ctx, name, g)
        want = _sim_result(rg, op["method"], op["H"])
        ctx.sim_months += cfg["simulation"]["num_months"]
        if not close(got, want)[0]:
            if "exc" in got or "exc" in want:
                detail = (f"simulate({op['method']}, H={op['H']}) after {ctx.shape[:-1]}: {got.get('exc', 'returns')} "
                          f"{got.get('msg', '')} on the used object, {want.get('exc', 'returns')} {want.get('msg', '')} on a fresh one")
                vclass = "sim_raises_differently"
            else:
                detail = (f"simulate({op['method']}, H={op['H']}) after {ctx.shape[:-1]}: max {got['max']!r} vs "
                          f"fresh {want['max']!r} (first difference at {close(got, want)[1]})")
                vclass = "sim_differs_from_fresh"
            ctx.violation(Violation("C13", vclass, detail, site=f"{op['method']}:{'out' if op.get('out_of_window') else 'in'}"), i,
                          {"times_before": kind_before, "out_of_window": bool(op.get("out_of_window")),
                           "table_built": table_built, "exc": got.get("exc") or want.get("exc")})


def op_size(ctx: Ctx, i, op):
    from ghedesigner.enums import TimestepType

    name = op["mgr"]
    g = _ghe_of(ctx, name)
    if g is None:
        ctx.bump("op_skipped_no_design")
        ctx.log.add("size", None, "skipped")
        return

    def run(obj):
        with Quiet():
            try:
                obj.size(method=TimestepType.HYBRID)
                return {"H": float(obj.bhe.b.H), "hp": [float(x) for x in obj.hp_eft]}
            except seams.InjectedAbort:
                raise
            except Exception as e:  # noqa: BLE001
                return {"exc": type(e).__name__, "msg": str(e)[:160]}

    kind_before = "hourly" if len(g.times) >= 8760 else "hybrid"
    got = run(g)
    ctx.log.add("size", None, got)
    _touch(ctx, name)
    if ctx.prop == "C05" and "H" in got:
        # the sized height is a root of the excess unless it is clamped at a bound (re-simulation of the same object)
        sim = _obj_cfg(ctx, name)["simulation"]
        with Quiet():
            mx, mn = g.simulate(method=TimestepType.HYBRID)
        e = max(mx - sim["max_eft"], sim["min_eft"] - mn)
        h = got["H"]
        ctx.bump("c05_sizings_checked")
        over, e2 = _oversized(g, sim, h, e)
        if e2 is not None and not over:
            ctx.bump("probe:root_at_a_jump_of_the_excess")
        if over:
            ctx.violation(Violation("C05", "height_oversized", f"size() after {ctx.shape[:-1]} returns {h:.4f} m with excess {e:.5f} "
                                                                f"< -1e-3 (still {e2:.5f} one millimetre lower) and H > min",
                                    site="size_op"), i, {"mode": "real"})
        if h < sim["max_height"] and e > TOL:
            ctx.violation(Violation("C05", "height_not_root_infeasible", f"size() after {ctx.shape[:-1]} returns {h:.4f} m with excess "
                                                                          f"{e:.5f} > 1e-3 and H < max", site="size_op"), i, {"mode": "real"})
    if ctx.prop == "C13":
        rg = _fresh_like(ctx, name, g)
        want = run(rg)
        if not close(got, want)[0]:
            ctx.violation(Violation("C13", "size_differs_from_fresh",
                                    f"size() after {ctx.shape[:-1]}: H {got.get('H', got)} vs fresh {want.get('H', want)}", site="size"), i,
                          {"times_before": kind_before, "exc": got.get("exc") or want.get("exc")})


def op_abort_size(ctx: Ctx, i, op):
    """size() interrupted at its k-th simulate(); the generator always places a size (the retry) right after."""
    from ghedesigner.enums import TimestepType

    name = op["mgr"]
    g = _ghe_of(ctx, name)
    if g is None:
        ctx.bump("op_skipped_no_design")
        ctx.log.add("abort_size", None, "skipped")
        return
    ABORTS.arm(op.get("site", "simulate"), op["k"])
    fired = False
    try:
        with Quiet():
            g.size(method=TimestepType.HYBRID)
    except seams.InjectedAbort:
        fired = True
    except Exception:  # noqa: BLE001
        pass
    finally:
        ABORTS.disarm()
    _touch(ctx, name)
    ctx.bump(f"fault:abort_inside_size_at_{op.get('site', 'simulate')}" if fired else "abort_not_reached")
    ctx.log.add("abort_size", op["k"], "aborted" if fired else "completed")


def op_abort_sim(ctx: Ctx, i, op):
    """simulate() at height H interrupted at the k-th tridiagonal solve of the short-time-step computation."""
    from ghedesigner.enums import TimestepType

    name = op["mgr"]
    g = _ghe_of(ctx, name)
    if g is None:
        ctx.bump("op_skipped_no_design")
        ctx.log.add("abort_sim", None, "skipped")
        return
    g.bhe.b.H = op["H"]
    ABORTS.arm("sts", op["k"])
    fired = False
    try:
        with Quiet():
            g.simulate(method=TimestepType[op["method"]])
    except seams.InjectedAbort:
        fired = True
    except Exception:  # noqa: BLE001
        pass
    finally:
        ABORTS.disarm()
    _touch(ctx, name)
    ctx.bump("fault:abort_inside_simulate_at_sts" if fired else "abort_not_reached")
    ctx.log.add("abort_sim", [op["H"], op["k"]], "aborted" if fired else "completed")


def op_poke(ctx: Ctx, i, op):
    """A setter is called again with the *same* values after a search (a parameter-study loop configuring the next case
    before saving the previous one, with identical numbers): nothing observable may change."""
    name = op["mgr"]
    mgr = ctx.mgrs.get(name)
    st = ctx.state.get(name)
    if mgr is None or st is None:
        return
    cfg = st["cfg"]
    with Quiet():
        if op["setter"] == "design":
            pass  # set_design alone would rebuild the design object; it is exercised by `redesign`
        elif op["setter"] == "borehole" and st.get("nominal_override"):
            mgr.set_borehole(height=st["nominal_override"], buried_depth=cfg["borehole"]["buried_depth"],
                             diameter=cfg["borehole"]["diameter"])
        else:
            gen._call_setter(mgr, op["setter"], cfg, gen._LOADS_CACHE)
    ctx.bump("probe:setter_called_again_after_search")
    ctx.log.add("poke", op["setter"], None)


def op_late_setter(ctx: Ctx, i, op):
    """A setter called after set_design with *different* values and no new set_design: the design keeps the objects it
    snapshotted, so the call is ignored by the search; whatever the summary then prints must still be self-consistent."""
    name = op["mgr"]
    mgr = ctx.mgrs.get(name)
    st = ctx.state.get(name)
    if mgr is None or st is None:
        return
    sim = dict(st["cfg"]["simulation"])
    sim["max_eft"] = gen.r3(sim["max_eft"] - 3.0)
    sim["min_eft"] = gen.r3(sim["min_eft"] + 2.0)
    with Quiet():
        mgr.set_simulation_parameters(**sim)
    st["late_setter"] = True
    ctx.bump("probe:setter_called_with_other_values_after_set_design")
    ctx.log.add("late_setter", [sim["max_eft"], sim["min_eft"]], None)


def op_other_leap(ctx: Ctx, i, op):
    """An unrelated design through the public design class with a leap load year (8784 loads): only a disturbance."""
    from ghedesigner.design import DesignNearSquare
    from ghedesigner.enums import FlowConfigType, TimestepType
    from ghedesigner.geometry import GeometricConstraintsNearSquare

    cfg2 = plan_cfg(ctx.plan, "cfg2")
    out = "ok"
    try:
        with Quiet():
            m = gen.build_manager(cfg2, set_design=False)
            loads = gen.expand_loads(cfg2["loads"])
            loads = loads + loads[:24]
            d = DesignNearSquare(0.3, m._borehole, m.pipe_type, m._fluid, m._pipe, m._grout, m._soil, m._simulation_parameters,
                                 GeometricConstraintsNearSquare(5.0, 12.0), loads, method=TimestepType.HYBRID,
                                 flow_type=FlowConfigType.BOREHOLE, load_years=[2020])
            d.find_design()
    except seams.InjectedAbort:
        raise
    except Exception as e:  # noqa: BLE001
        out = f"raised {type(e).__name__}"
    ctx.bump("probe:leap_year_design_ran_in_between")
    ctx.log.add("other_leap", None, out)


def op_regen(ctx: Ctx, i, op):
    name = op["mgr"]
    g = _ghe_of(ctx, name)
    if g is None:
        ctx.bump("op_skipped_no_design")
        ctx.log.add("regen", None, "skipped")
        return
    with Quiet():
        g.compute_g_functions()
    if name == "G":
        ctx.ghe_objs["G"]["regen"] = True
    ctx.log.add("regen", None, {str(k): v for k, v in g.gFunction.g_lts.items()})


def op_pristine(ctx: Ctx, i, op):
    """The manager's last result against fresh(cfg) computed in a *pristine interpreter* (new process, other hash seed, no
    g-function memo): catches process-global leaks that would equally affect an in-process reference."""
    import os
    import subprocess
    import sys

    from .kernel import PINNED_ENV, VERIF_DIR

    name = op["mgr"]
    st = ctx.state.get(name)
    if not st or not st["last"] or st.get("aborted"):
        ctx.log.add("pristine", None, "skipped")
        return
    cfg = st["cfg"]
    f = ctx.root / f"cfg_{i}.json"
    f.write_text(json.dumps(cfg))
    env = dict(os.environ)
    env.update(PINNED_ENV)
    env.update({"PYTHONHASHSEED": "1", "GHE_VERIF_PINNED": "1", "VERIF_NO_MEMO": "1"})
    p = subprocess.run([sys.executable, str(VERIF_DIR / "run.py"), "_fresh", str(f)], env=env, capture_output=True, text=True,
                       timeout=900)
    line = [ln for ln in p.stdout.splitlines() if ln.startswith("FRESH ")]
    if p.returncode != 0 or not line:
        raise RuntimeError(f"pristine reference subprocess failed: {p.stdout[-500:]} {p.stderr[-1500:]}")
    ref = json.loads(line[-1][6:])
    ctx.bump("pristine_subprocess_references")
    out = st["last"]
    a = out.get("ok") or {"exc": out["exc"], "msg": out["msg"]}
    b = ref.get("ok") or {"exc": ref["exc"], "msg": ref["msg"]}
    same = close(a, b)[0]
    ctx.log.add("pristine", None, same)
    if not same:
        diff = sorted(k for k in set(a) | set(b) if not close(a.get(k), b.get(k))[0])
        ctx.violation(Violation("C13", "find_differs_from_pristine_process",
                                f"after {ctx.shape[:-1]} (and whatever this worker ran before) the result differs from a fresh "
                                f"manager in a new process in {diff}", site="pristine"), i, {"after": _history_kind(ctx)})


def op_pristine_resim(ctx: Ctx, i, op):
    import os
    import subprocess
    import sys

    from .kernel import PINNED_ENV, VERIF_DIR

    name = op["mgr"]
    st = ctx.state.get(name)
    g = _ghe_of(ctx, name)
    if g is None or st.get("touched"):
        ctx.log.add("pristine_resim", None, "skipped")
        return
    cfg = st["cfg"]
    sim = cfg["simulation"]
    h = float(g.bhe.b.H)
    delta = max(1.0e-3, 20.0 * (1.0e-6 + 1.0e-6 * h))
    job = {"cfg": cfg, "coords": [list(map(float, c)) for c in g.gFunction.bore_locations], "spec": str(g.fieldSpecifier),
           "h0": g._verif_h0, "heights": [h, max(sim["min_height"], h - delta)]}
    f = ctx.root / f"resim_{i}.json"
    f.write_text(json.dumps(job))
    env = dict(os.environ)
    env.update(PINNED_ENV)
    env.update({"PYTHONHASHSEED": "1", "GHE_VERIF_PINNED": "1", "VERIF_NO_MEMO": "1"})
    p = subprocess.run([sys.executable, str(VERIF_DIR / "run.py"), "_resim", str(f)], env=env, capture_output=True, text=True,
                       timeout=900)
    line = [ln for ln in p.stdout.splitlines() if ln.startswith("RESIM ")]
    if p.returncode != 0 or not line:
        raise RuntimeError(f"pristine re-simulation subprocess failed: {p.stdout[-500:]} {p.stderr[-1500:]}")
    res = json.loads(line[-1][6:])
    ctx.bump("pristine_subprocess_resimulations")
    ctx.log.add("pristine_resim", [h], res)
    (mx, mn), (mx2, mn2) = res
    e = max(mx - sim["max_eft"], sim["min_eft"] - mn)
    e2 = max(mx2 - sim["max_eft"], sim["min_eft"] - mn2)
    out = st["last"]
    oc = outcome_class(cfg, out)
    method = cfg["geometry"]["method"]
    nbh = len(job["coords"])
    if ctx.prop == "C01" and not out.get("escape") and e > TOL and not st.get("c01_jump"):
        ctx.violation(Violation("C01", "returned_design_infeasible",
                                f"{nbh} bh @ {h:.4f} m simulated by a brand-new evaluator in a new process: max EFT {mx:.4f} (limit "
                                f"{sim['max_eft']}), min EFT {mn:.4f} (limit {sim['min_eft']}): excess {e:.5f} K > 1e-3 ({method}, {oc}) "
                                f"after {ctx.shape[:-1]}", site=f"{method}:pristine"), i, {"after": _history_kind(ctx)})
    if ctx.prop == "C05" and not out.get("escape"):
        if h > sim["min_height"] and e < -TOL and e2 < -TOL:
            ctx.violation(Violation("C05", "height_oversized", f"excess({nbh}@{h:.4f})={e:.5f} (still {e2:.5f} one millimetre lower) in a "
                                                                f"new process after {ctx.shape[:-1]} ({method})", site=f"{method}:pristine"),
                          i, {"mode": "real"})
        if h < sim["max_height"] and e > TOL:
            ctx.violation(Violation("C05", "height_not_root_infeasible", f"excess({nbh}@{h:.4f})={e:.5f} > 1e-3 with H<max in a new "
                                                                          f"process after {ctx.shape[:-1]} ({method})",
                                    site=f"{method}:pristine"), i, {"mode": "real"})


def resim_main(path: str) -> int:
    """`run.py _resim <job.json>`: (max, min) EFT of a brand-new GHE for the given field at the given heights."""
    worker_init()
    job = json.loads(Path(path).read_text())
    g = REF.fresh_ghe(job["cfg"], job["coords"], job["spec"], h0=job["h0"])
    out = []
    for h in job["heights"]:
        r = _sim_result(g, "HYBRID", h)
        if "exc" in r:
            print("RESIM-ERROR", r)
            return 1
        out.append([r["max"], r["min"]])
    print("RESIM " + json.dumps(out))
    return 0


def fresh_main(path: str) -> int:
    """`run.py _fresh <cfg.json>`: fingerprint of fresh(cfg) in this (new) interpreter."""
    worker_init()
    cfg = json.loads(Path(path).read_text())
    out = REF.fresh(cfg)
    print("FRESH " + json.dumps(out))
    return 0


def op_tick(ctx: Ctx, i, op):
    ctx.clock.jump(op["dt"])
    ctx.bump("fault:clock_jump_backward" if op["dt"] < 0 else "fault:clock_jump_forward")
    ctx.log.add("tick", op["dt"], None)


# ---- reports and their oracles
CLOCK_TXT = re.compile(r"^(Simulated On:|Calculation Time, s:).*$", re.M)


def _num(x: str):
    try:
        return float(x)
    except ValueError:
        return x


def _normalise_outputs(files: dict) -> dict:
    """Parsed content with the clock-derived fields removed (compared with `close`, i.e. numbers at 1e-9)."""
    out = {}
    for k, v in files.items():
        base = re.sub(r"_x(?=\.)", "", k)
        if base == "SimulationSummary.json":
            d = json.loads(v)
            d.pop("simulation_time_stamp", None)
            d.pop("simulation_runtime", None)
            out[base] = d
        elif base == "SimulationSummary.txt":
            out[base] = CLOCK_TXT.sub("", v)
        else:
            out[base] = [[_num(c) for c in row] for row in csv.reader(io.StringIO(v))]
    return out


def _read_outputs(d: Path) -> dict:
    return {p.name: p.read_text() for p in sorted(d.iterdir()) if p.is_file()}


def op_report(ctx: Ctx, i, op):
    name = op["mgr"]
    g = _ghe_of(ctx, name)
    if g is None:
        ctx.bump("op_skipped_no_design")
        ctx.log.add("report", None, "skipped")
        return
    mgr = ctx.mgrs[name]
    st = ctx.state[name]
    cfg = st["cfg"]
    outdir = ctx.root / op["dir"]
    reads_before = len(ctx.clock.reads)
    shim = seams.FileShim(str(ctx.root), [])
    if op.get("io_fault_first_attempt"):
        shim = seams.FileShim(str(ctx.root), [op["io_fault_first_attempt"]])
        try:
            with Quiet(), shim:
                mgr.prepare_results("proj", "note", "auth", "iter")
                mgr.write_output_files(outdir, op.get("suffix", ""))
        except OSError:
            pass
        except Exception as e:  # noqa: BLE001
            ctx.bump(f"report_raised:{type(e).__name__}")
        for kind, base, n in shim.fired:
            ctx.bump(f"fault:report_io_{kind}")
    first_failed = bool(op.get("io_fault_first_attempt")) and bool(shim.fired)
    try:
        with Quiet():
            if not (first_failed and op.get("retry_write_only")):
                mgr.prepare_results("proj", "note", "auth", "iter")
            else:
                ctx.bump("probe:write_retried_without_new_prepare")
            if op.get("other_prepares_in_between") and _ghe_of(ctx, "B") is not None:
                # a batch script that prepares all its cases first and writes the reports afterwards
                ctx.mgrs["B"].prepare_results("projB", "noteB", "authB", "iterB")
                ctx.bump("probe:other_manager_prepared_results_between_prepare_and_write")
            mgr.write_output_files(outdir, op.get("suffix", ""))
    except Exception as e:  # noqa: BLE001
        # e.g. a report requested while an out-of-window height is left on the object (C13 histories only)
        ctx.bump(f"report_raised:{type(e).__name__}")
        ctx.log.add("report", op.get("suffix"), ["raised", type(e).__name__])
        if ctx.prop in ("C12", "C19"):
            ctx.violation(Violation(ctx.prop, "report_raised", f"{type(e).__name__}: {e} after {ctx.shape[:-1]}", site="report"), i)
        return
    oc = outcome_class(cfg, st["last"])
    ctx.bump(f"report_after:{oc}")

    def check(files, sfx):
        ctx.log.add("report", sfx, _normalise_outputs(files))
        ctx.bump("reports")
        f = lambda n: files[n.replace(".", sfx + ".", 1) if sfx else n]  # noqa: E731
        if ctx.prop == "C12":
            _oracle_c12(ctx, i, mgr, cfg, f, oc)
        elif ctx.prop == "C19":
            _oracle_c19(ctx, i, mgr, cfg, f, oc)
        elif ctx.prop == "C13" and not st.get("touched"):
            # equality with the files a fresh manager writes (clock-derived fields removed, numbers at 1e-9)
            rm = ctx.ref.fresh_mgr(cfg)
            key = digest(cfg)
            if key not in ctx.ref.files:
                rdir = ctx.root / f"ref_{key[:10]}"
                with Quiet():
                    rm.prepare_results("proj", "note", "auth", "iter")
                    rm.write_output_files(rdir, "")
                ctx.ref.files[key] = _normalise_outputs(_read_outputs(rdir))
            got = _normalise_outputs(files)
            want = ctx.ref.files[key]
            if not close(got, want)[0]:
                diff = sorted(k for k in set(got) | set(want) if not close(got.get(k), want.get(k))[0])
                ctx.violation(Violation("C13", "output_files_differ_from_fresh", f"after {ctx.shape[:-1]}: {diff} differ",
                                        site="report"), i, {"files": ",".join(diff)})

    try:
        check(_read_outputs(outdir), op.get("suffix", ""))
        if op.get("rewrite"):
            # the same prepared result set written a second time (other directory / suffix), without a new prepare
            out2 = ctx.root / (op["dir"] + "_again")
            sfx2 = "_x" if not op.get("suffix") else ""
            with Quiet():
                mgr.write_output_files(out2, sfx2)
            ctx.bump("probe:prepared_results_written_twice")
            check(_read_outputs(out2), sfx2)
    except (KeyError, IndexError, ValueError, StopIteration) as e:
        # a table that cannot even be parsed / is missing
        ctx.violation(Violation(ctx.prop, "report_unreadable", f"{type(e).__name__}: {e} after {ctx.shape[:-1]}", site="report"), i)


def op_deferred_report(ctx: Ctx, i, op):
    """A parametric study on one manager: results of the current design are prepared and kept, the manager moves on (another
    configuration is searched / the field object is simulated elsewhere), and only then the kept result set is written.
    The files must describe the design as it was when its results were prepared."""
    name = op["mgr"]
    g = _ghe_of(ctx, name)
    if g is None:
        ctx.bump("op_skipped_no_design")
        ctx.log.add("deferred_report", None, "skipped")
        return
    mgr = ctx.mgrs[name]
    st = ctx.state[name]
    cfg = st["cfg"]
    try:
        with Quiet():
            mgr.prepare_results("proj", "note", "auth", "iter")
            gg, gb = g.grab_g_function(g.B_spacing / float(g.bhe.b.H))
    except Exception as e:  # noqa: BLE001
        ctx.log.add("deferred_report", None, ["prepare raised", type(e).__name__])
        return
    kept = mgr.results
    snap = {"g_rows": [[float(a), float(b), float(c)] for a, b, c in zip(gg.x, gg.y, gb.y)],
            "coords": [[float(c[0]), float(c[1])] for c in g.gFunction.bore_locations], "H": float(g.bhe.b.H),
            "loads": gen.expand_loads(cfg["loads"]), "max": float(max(g.hp_eft)), "min": float(min(g.hp_eft))}
    # the manager moves on
    if op["move_on"] == "reconf":
        op_reconf(ctx, i, {"op": "reconf", "mgr": name, "to": "variant" if st["cfg"] == plan_cfg(ctx.plan, "base") else "base"})
    elif op["move_on"] == "nominal":
        op_nominal(ctx, i, {"op": "nominal", "mgr": name, "height": gen.r3((cfg["simulation"]["min_height"] + cfg["simulation"]["max_height"]) / 2)})
    else:
        _sim_result(g, "HYBRID", gen.r3((cfg["simulation"]["min_height"] + cfg["simulation"]["max_height"]) / 2))
        _touch(ctx, name)
    outdir = ctx.root / op["dir"]
    try:
        with Quiet():
            kept.write_all_output_files(output_directory=outdir, file_suffix="")
    except Exception as e:  # noqa: BLE001
        ctx.violation(Violation(ctx.prop, "report_raised", f"{type(e).__name__}: {e} when a kept result set is written later",
                                site="deferred_report"), i)
        return
    files = _read_outputs(outdir)
    ctx.bump("probe:kept_results_written_after_manager_moved_on")
    ctx.log.add("deferred_report", op["move_on"], _normalise_outputs(files))
    feats = {"outcome": "deferred"}
    try:
        summ = json.loads(files["SimulationSummary.json"])
        rows = list(csv.reader(io.StringIO(files["BoreFieldData.csv"])))[1:]
        grow = [[float(x) for x in r] for r in list(csv.reader(io.StringIO(files["Gfunction.csv"])))[1:]]
        lrows = list(csv.reader(io.StringIO(files["Loadings.csv"])))[1:]
    except Exception as e:  # noqa: BLE001
        ctx.violation(Violation(ctx.prop, "report_unreadable", f"{type(e).__name__}: {e}", site="deferred_report"), i, feats)
        return
    if ctx.prop == "C19":
        if not close(grow, snap["g_rows"])[0]:
            ctx.violation(Violation("C19", "gfunction_table_not_simulated_curve", "Gfunction.csv of a result set written after the "
                                    f"manager moved on ({op['move_on']}) is not the curve of the design it was prepared for",
                                    site="deferred_report"), i, feats)
        if len(rows) != len(snap["coords"]) or not close([[float(r[0]), float(r[1])] for r in rows], snap["coords"])[0]:
            ctx.violation(Violation("C19", "borefield_table_not_selected_field", "BoreFieldData.csv of a kept result set changed",
                                    site="deferred_report"), i, feats)
        if len(lrows) != 8760 or any(float(r[4]) != snap["loads"][k] for k, r in enumerate(lrows)):
            ctx.violation(Violation("C19", "loads_not_echoed", f"Loadings.csv of a kept result set: {len(lrows)} rows / values differ",
                                    site="deferred_report"), i, feats)
    if ctx.prop == "C12":
        nbh = summ["ghe_system"]["number_of_boreholes"]
        h = summ["ghe_system"]["active_borehole_length"]["value"]
        if nbh != len(rows) or nbh != len(snap["coords"]):
            ctx.violation(Violation("C12", "borehole_count_mismatch", f"kept result set: summary {nbh}, rows {len(rows)}, prepared for "
                                                                      f"{len(snap['coords'])}", site="deferred_report"), i, feats)
        if summ["ghe_system"]["total_drilling"]["value"] != nbh * h:
            ctx.violation(Violation("C12", "total_drilling_mismatch", "kept result set", site="deferred_report"), i, feats)
        if abs(h - snap["H"]) > 1e-9 or abs(summ["simulation_results"]["max_hp_eft"]["value"] - snap["max"]) > TOL or abs(
                summ["simulation_results"]["min_hp_eft"]["value"] - snap["min"]) > TOL:
            ctx.violation(Violation("C12", "reported_eft_not_at_reported_height",
                                    f"kept result set written after the manager moved on ({op['move_on']}): height {h!r} / EFT "
                                    f"{summ['simulation_results']['max_hp_eft']['value']:.4f} vs prepared {snap['H']!r} / {snap['max']:.4f}",
                                    site="deferred_report"), i, feats)


def _oracle_c12(ctx: Ctx, i, mgr, cfg, f, oc):
    from ghedesigner.enums import TimestepType

    method = cfg["geometry"]["method"]
    summ = json.loads(f("SimulationSummary.json"))
    od = mgr.results.output_dict
    g = mgr._search.ghe
    coords = g.gFunction.bore_locations
    rows = list(csv.reader(io.StringIO(f("BoreFieldData.csv"))))[1:]
    nbh = summ["ghe_system"]["number_of_boreholes"]
    h = summ["ghe_system"]["active_borehole_length"]["value"]
    feats = {"outcome": oc}
    if not (nbh == len(rows) == len(coords) == od["ghe_system"]["number_of_boreholes"]):
        ctx.violation(Violation("C12", "borehole_count_mismatch", f"summary {nbh}, BoreFieldData rows {len(rows)}, returned field "
                                                                  f"{len(coords)}", site="count"), i, feats)
    td = summ["ghe_system"]["total_drilling"]["value"]
    if td != nbh * h:
        ctx.violation(Violation("C12", "total_drilling_mismatch", f"total_drilling {td!r} != {nbh} x {h!r}", site="drilling"), i, feats)
    if h != g.bhe.b.H:
        ctx.violation(Violation("C12", "reported_height_not_live_height", f"{h!r} vs {g.bhe.b.H!r}", site="height"), i, feats)
    # search log rows
    sim = cfg["simulation"]
    late = bool(ctx.state.get("A", {}).get("late_setter"))
    lim_hi = summ["simulation_parameters"]["maximum_allowable_hp_eft"]["value"]
    lim_lo = summ["simulation_parameters"]["minimum_allowable_hp_eft"]["value"]
    if not late and (lim_hi != sim["max_eft"] or lim_lo != sim["min_eft"]):
        ctx.violation(Violation("C12", "reported_limits_not_the_configured_ones", f"summary prints {lim_hi}/{lim_lo}, configured "
                                                                                  f"{sim['max_eft']}/{sim['min_eft']}", site="limits"), i, feats)
    for row in summ["design_selection_search_log"]["data"]:
        _, exc_t, mx, mn = row
        # self-consistency: against the limits the same summary prints
        want = max(mx - lim_hi, lim_lo - mn)
        if abs(exc_t - want) > 1e-12 * max(1.0, abs(want)):
            ctx.violation(Violation("C12", "search_log_row_inconsistent", f"row {row}: excess {exc_t!r} != {want!r} for the printed "
                                                                          f"limits {lim_hi}/{lim_lo}", site="search_log"), i, feats)
            break
    ctx.bump("search_log_rows_checked", len(summ["design_selection_search_log"]["data"]))
    # reported temperatures vs re-simulation of the same returned object at the reported height
    rep_max = summ["simulation_results"]["max_hp_eft"]["value"]
    rep_min = summ["simulation_results"]["min_hp_eft"]["value"]
    with Quiet():
        mx, mn = g.simulate(method=TimestepType.HYBRID)
    ctx.log.add("resim", h, [mx, mn])
    ctx.sim_months += sim["num_months"]
    if abs(rep_max - mx) > TOL or abs(rep_min - mn) > TOL:
        ctx.violation(Violation("C12", "reported_eft_not_at_reported_height",
                                f"reported max/min {rep_max:.4f}/{rep_min:.4f} C, simulating {nbh} bh at the reported "
                                f"{h:.3f} m gives {mx:.4f}/{mn:.4f} C ({method}, {oc})", site=f"eft:{oc}"), i, feats)
    txt = f("SimulationSummary.txt")
    m1 = re.search(r"Max HP EFT, C:\s+(-?[\d.]+)", txt)
    m2 = re.search(r"Min HP EFT, C:\s+(-?[\d.]+)", txt)
    if not m1 or not m2:
        ctx.violation(Violation("C12", "text_summary_unparsable", "peak temperature rows missing", site="txt"), i, feats)
    else:
        if abs(float(m1.group(1)) - mx) > TOL + 5.1e-4 or abs(float(m2.group(1)) - mn) > TOL + 5.1e-4:
            ctx.violation(Violation("C12", "text_eft_not_at_reported_height",
                                    f"text summary {m1.group(1)}/{m2.group(1)} vs re-simulated {mx:.4f}/{mn:.4f} ({oc})",
                                    site=f"txt:{oc}"), i, feats)
    m3 = re.search(r"NBH:\s+(\d+)", txt)
    if not m3 or int(m3.group(1)) != nbh:
        ctx.violation(Violation("C12", "text_borehole_count_mismatch", f"text NBH {m3.group(1) if m3 else None} vs {nbh}",
                                site="txt"), i, feats)
    ctx.bump(f"probe:report_checked_for_{oc}")


def _calendar():
    out = []
    t = _dt.datetime(2019, 1, 1)
    for hidx in range(8760):
        d = t + _dt.timedelta(hours=hidx)
        out.append((d.month, d.day, d.hour + 1))
    return out


CAL = _calendar()
MONTH_HOURS = [31 * 24, 28 * 24, 31 * 24, 30 * 24, 31 * 24, 30 * 24, 31 * 24, 31 * 24, 30 * 24, 31 * 24, 30 * 24, 31 * 24]


def hours_to_months_ref(hours: float) -> float:
    """independent piecewise-linear map elapsed hours -> fractional months; month ends are integers
    (a boundary belongs to the month that ends there, as in the tool's tables)."""
    years = math.floor(hours / 8760.0)
    rem = hours - years * 8760.0
    if rem == 0.0 and years > 0:
        return years * 12.0
    acc = 0.0
    for m, mh in enumerate(MONTH_HOURS):
        if rem <= acc + mh:
            return years * 12.0 + m + (rem - acc) / mh
        acc += mh
    return years * 12.0 + 12.0


def _oracle_c19(ctx: Ctx, i, mgr, cfg, f, oc):
    g = mgr._search.ghe
    feats = {"outcome": oc}
    loads = gen.expand_loads(cfg["loads"])
    rows = list(csv.reader(io.StringIO(f("Loadings.csv"))))
    if len(rows) != 8761:
        ctx.violation(Violation("C19", "loadings_row_count", f"{len(rows) - 1} data rows", site="Loadings"), i, feats)
    else:
        for hidx, r in enumerate(rows[1:]):
            mo, da, hr = CAL[hidx]
            if (int(r[0]), int(r[1]), int(r[2])) != (mo, da, hr) or int(r[3]) != hidx:
                ctx.violation(Violation("C19", "calendar_label_wrong", f"hour {hidx}: row {r[:4]} but calendar says "
                                                                       f"{(mo, da, hr)}", site="Loadings"), i, feats)
                break
            if float(r[4]) != loads[hidx]:
                ctx.violation(Violation("C19", "loads_not_echoed", f"hour {hidx}: {r[4]} vs input {loads[hidx]!r}", site="Loadings"),
                              i, feats)
                break
        ctx.bump("calendar_rows_checked", 8760)
    rows = list(csv.reader(io.StringIO(f("BoreFieldData.csv"))))[1:]
    coords = g.gFunction.bore_locations
    if len(rows) != len(coords) or any(float(r[0]) != float(c[0]) or float(r[1]) != float(c[1]) for r, c in zip(rows, coords)):
        ctx.violation(Violation("C19", "borefield_table_not_selected_field", f"{len(rows)} rows vs {len(coords)} selected",
                                site="BoreFieldData"), i, feats)
    rows = list(csv.reader(io.StringIO(f("Gfunction.csv"))))[1:]
    xs = [float(r[0]) for r in rows]
    if any(b <= a for a, b in zip(xs, xs[1:])):
        ctx.violation(Violation("C19", "gfunction_time_not_increasing", "ln(t/ts) column not strictly increasing",
                                site="Gfunction"), i, feats)
    with Quiet():
        gg, gb = g.grab_g_function(g.B_spacing / float(g.bhe.b.H))
    live = [[float(a), float(b), float(c)] for a, b, c in zip(gg.x, gg.y, gb.y)]
    tab = [[float(r[0]), float(r[1]), float(r[2])] for r in rows]
    if tab != live:
        ctx.violation(Violation("C19", "gfunction_table_not_simulated_curve", f"{len(tab)} rows vs {len(live)} live", site="Gfunction"),
                      i, feats)
    rows = list(csv.reader(io.StringIO(f("TimeDependentValues.csv"))))[1:]
    prev = -1.0
    for r in rows:
        t_h, t_m = float(r[0]), float(r[1])
        want = hours_to_months_ref(t_h)
        if abs(t_m - want) > 1e-9:
            ctx.violation(Violation("C19", "hours_to_months_wrong", f"{t_h} h -> {t_m} months, reference {want}",
                                    site="TimeDependentValues"), i, feats)
            break
        if t_m < prev - 1e-12 and t_h >= prev_h:
            ctx.violation(Violation("C19", "months_not_monotone", f"{t_h} h -> {t_m} after {prev}", site="TimeDependentValues"), i,
                          feats)
            break
        prev, prev_h = t_m, t_h
    ctx.bump("elapsed_time_rows_checked", len(rows))
    summ = json.loads(f("SimulationSummary.json"))
    hp = [float(x) for x in g.hp_eft]
    times = [float(x) for x in g.times]
    for key, fn in (("max_hp_eft_time", max), ("min_hp_eft_time", min)):
        want = hours_to_months_ref(times[hp.index(fn(hp))])
        got = summ["simulation_results"][key]["value"]
        if abs(got - want) > 1e-9:
            ctx.violation(Violation("C19", "extreme_time_wrong", f"{key} {got} vs {want}", site="summary"), i, feats)
    ctx.bump(f"probe:tables_checked_for_{oc}")


# ---- C20: flow records and the twin evaluation
class FlowRecorder:
    def __init__(self):
        self.records = []

    @contextlib.contextmanager
    def installed(self):
        import ghedesigner.ground_heat_exchangers as ghx
        import ghedesigner.search_routines as sr

        rec = self
        orig_g = sr.calc_g_func_for_multiple_lengths
        orig_init = ghx.BaseGHE.__init__

        def gwrap(b, h_values, r_b, depth, m_flow_borehole, *a, **kw):
            g = orig_g(b, h_values, r_b, depth, m_flow_borehole, *a, **kw)
            rec.records.append({"kind": "gfunc", "m_flow": m_flow_borehole, "n": len(g.bore_locations)})
            return g

        def iwrap(self, v_flow_system, *a, **kw):
            orig_init(self, v_flow_system, *a, **kw)
            rec.records.append({"kind": "ghe", "v_flow_system": v_flow_system, "n": self.nbh, "m_flow": self.m_flow_borehole,
                                "m_flow_bhe": self.bhe.m_flow_borehole})

        sr.calc_g_func_for_multiple_lengths = gwrap
        ghx.BaseGHE.__init__ = iwrap
        try:
            yield self
        finally:
            sr.calc_g_func_for_multiple_lengths = orig_g
            ghx.BaseGHE.__init__ = orig_init


def _check_flow_records(ctx: Ctx, i, cfg, mgr):
    rec = getattr(ctx, "flow_rec", None)
    if rec is None:
        return
    v = cfg["design"]["flow_rate"]
    ft = cfg["design"]["flow_type"]
    rho = mgr._fluid.rho
    last_g = None
    ns = set()
    for r in rec.records:
        if r["kind"] == "gfunc":
            last_g = r
            continue
        n = r["n"]
        want_m = v / 1000.0 * rho if ft == "BOREHOLE" else v / n / 1000.0 * rho
        want_sys = v * n if ft == "BOREHOLE" else v
        checks = [("system_flow", r["v_flow_system"], want_sys), ("ghe_mass_flow", r["m_flow"], want_m),
                  ("bhe_mass_flow", r["m_flow_bhe"], want_m)]
        if last_g is not None and last_g["n"] == n:
            checks.append(("gfunc_mass_flow", last_g["m_flow"], want_m))
        for nm, got, want in checks:
            if abs(got - want) > 1e-12 * abs(want):
                ctx.violation(Violation("C20", "flow_split", f"{nm}: got {got!r}, want {want!r} for N={n}, {ft} v={v}",
                                        site=f"{cfg['geometry']['method']}:{ft}:{nm}"), i, {"mode": "real"})
        ns.add(n)
        ctx.bump("flow_records_checked")
    ctx.bump("distinct_field_sizes_with_flow_checked", len(ns))


def op_twin(ctx: Ctx, i, op):
    """Evaluate the returned field at the returned height once with BOREHOLE v and once with SYSTEM N*v."""
    name = op["mgr"]
    g = _ghe_of(ctx, name)
    if g is None:
        ctx.bump("op_skipped_no_design")
        ctx.log.add("twin", None, "skipped")
        return
    cfg = ctx.state[name]["cfg"]
    coords = [list(c) for c in g.gFunction.bore_locations]
    n = len(coords)
    h = g.bhe.b.H
    v = cfg["design"]["flow_rate"] if cfg["design"]["flow_type"] == "BOREHOLE" else cfg["design"]["flow_rate"] / n
    a = ctx.ref.fresh_ghe(cfg, coords, "twin", flow_override=(v, "BOREHOLE"))
    b = ctx.ref.fresh_ghe(cfg, coords, "twin", flow_override=(v * n, "SYSTEM"))
    ra = _sim_result(a, "HYBRID", h)
    rb = _sim_result(b, "HYBRID", h)
    ctx.log.add("twin", [n, h, v], [ra, rb])
    ctx.bump("twin_evaluations")
    ctx.bump(f"twin_pipe:{cfg['pipe']['arrangement']}")
    rho = a.bhe.fluid.rho
    feats = {"mode": "real"}
    site = cfg["geometry"]["method"]
    want_m = v / 1000.0 * rho
    for nm, obj in (("BOREHOLE", a), ("SYSTEM", b)):
        for attr, got in (("ghe.m_flow_borehole", obj.m_flow_borehole), ("bhe.m_flow_borehole", obj.bhe.m_flow_borehole)):
            if abs(got - want_m) > 1e-12 * want_m:
                ctx.violation(Violation("C20", "twin_mass_flow", f"{nm}: {attr} {got!r} vs v/1000*rho {want_m!r} (N={n})",
                                        site=f"{site}:{nm}"), i, feats)
    with Quiet():
        r1, r2 = a.bhe.calc_effective_borehole_resistance(), b.bhe.calc_effective_borehole_resistance()
    if abs(r1 - r2) > 1e-12 * abs(r1):
        ctx.violation(Violation("C20", "twin_resistance", f"R_b* {r1!r} vs {r2!r} (N={n})", site=site), i, feats)
    if "exc" in ra or "exc" in rb:
        if ra.get("exc") != rb.get("exc"):
            ctx.violation(Violation("C20", "twin_raises_differently", f"{ra} vs {rb}", site=site), i, feats)
        return
    for k in ("max", "min"):
        x, y = ra[k], rb[k]
        if abs(x - y) > 1e-9:
            ctx.violation(Violation("C20", "twin_temperatures", f"{k} EFT {x!r} (BOREHOLE v) vs {y!r} (SYSTEM N v), N={n}", site=site),
                          i, feats)


OPS = {"build": op_build, "find": op_find, "redesign": op_redesign, "nominal": op_nominal, "abort_find": op_abort_find,
       "other": op_other, "sim": op_sim, "size": op_size, "abort_size": op_abort_size, "pristine": op_pristine, "reconf": op_reconf, "ghe_new": op_ghe_new, "abort_sim": op_abort_sim, "poke": op_poke, "other_leap": op_other_leap, "pristine_resim": op_pristine_resim, "deferred_report": op_deferred_report, "late_setter": op_late_setter, "regen": op_regen, "tick": op_tick, "report": op_report,
       "twin": op_twin}


# ------------------------------------------------------------------------------------------ run / batch / minimise
def run_plan(plan: dict) -> dict:
    if not getattr(GMEMO, "_orig", None):
        worker_init()
    try:
        ctx = execute(plan)
    except seams.InjectedAbort as e:
        return {"status": "harness_error", "trace": f"stray abort: {e}"}
    ops = [o["op"] + (":" + o["method"] if o["op"] == "sim" else "") for o in plan["ops"]]
    count = dict(ctx.count)
    count["simulated_ground_loop_months"] = int(ctx.sim_months)
    count["virtual_clock_seconds"] = int(abs(ctx.virtual_clock_s))
    count["ops_total"] = len(ops)
    count["gfunc_memo_hits"] = GMEMO.hits
    count["gfunc_memo_misses"] = GMEMO.misses
    GMEMO.hits = GMEMO.misses = 0
    info = {"digest": ctx.log.run_digest(), "count": count, "nontrivial": len(ops) >= 3 and not getattr(ctx, "degenerate", False),
            "cost": len(ops),
            "sets": {"abstract_states": sorted(ctx.sets["abstract_states"]), "transitions": sorted(ctx.sets["transitions"]),
                     "outcome_classes": sorted(ctx.sets["outcome_classes"]), "history_shapes": [digest(ops)[:12]]},
            "sample": {"method": plan["cfg"]["geometry"]["method"], "pipe": plan["cfg"]["pipe"]["arrangement"],
                       "flow": plan["cfg"]["design"], "months": plan["cfg"]["simulation"]["num_months"],
                       "load_family": plan["cfg"]["loads"]["family"], "ops": ops,
                       "outcomes": sorted(ctx.sets["outcome_classes"]),
                       "event_log": ctx.log.events[:12]}}
    if not ctx.viols:
        info["status"] = "ok"
        return info
    info["status"] = "violation"
    info["violation"] = ctx.viols[0]
    info["more_violations"] = ctx.viols[1:]
    return info


LEAVES = [("soil", "conductivity"), ("soil", "rho_cp"), ("soil", "undisturbed_temp"), ("grout", "conductivity"), ("grout", "rho_cp"),
          ("fluid", "temperature"), ("fluid", "concentration_percent"), ("borehole", "buried_depth"), ("borehole", "diameter"),
          ("pipe", "shank_spacing"), ("pipe", "conductivity"), ("pipe", "rho_cp"), ("pipe", "roughness"),
          ("simulation", "num_months"), ("simulation", "max_eft"), ("simulation", "min_eft"), ("design", "flow_rate"),
          ("loads", "amp"), ("loads", "phase"), ("simulation", "max_boreholes"), ("simulation", "continue_if_design_unmet")]


def leaf_sweep_plans(seed: int, prop: str) -> list:
    """Fault-enumeration-like part of C13: for one seeded base configuration, *every* single input number in turn is
    changed (up and down) on a near-identical design that runs first in the process; the base design is then compared with
    a pristine interpreter.  A process-wide cache whose key forgets that one field serves the base design stale data."""
    plans = []
    for which in ("deep", "shallow"):
        plans += _leaf_sweep_for(seed, prop, which)
    return plans


def _leaf_sweep_for(seed: int, prop: str, which: str) -> list:
    rng = derive_rng(seed, "E1", prop, f"leaf-sweep-{which}")
    cfg = gen.draw_cfg(rng, methods=["NEARSQUARE", "RECTANGLE"], pipes=["SINGLEUTUBE", "DOUBLEUTUBEPARALLEL", "COAXIAL"],
                       target="bracket", months=rng.choice([12, 24]))
    cfg["simulation"]["max_boreholes"] = None
    if cfg["fluid"]["fluid_name"] == "WATER":
        cfg["fluid"] = {"fluid_name": "PROPYLENEGLYCOL", "concentration_percent": 20.0, "temperature": 20.0}
    if which == "shallow":
        # below ~70 m the short-time-step model runs for its minimum duration whatever the soil
        cfg["simulation"]["min_height"] = gen.r3(rng.uniform(25.0, 40.0))
        cfg["simulation"]["max_height"] = gen.r3(cfg["simulation"]["min_height"] + rng.uniform(15.0, 28.0))
        cfg["borehole"]["height"] = cfg["simulation"]["max_height"]
        cfg["loads"]["amp"] = gen.amp_for(cfg, rng.uniform(3.0, 9.0), cfg["simulation"]["max_height"])
    cfg2 = gen.draw_cfg(rng, methods=CHEAP_METHODS, months=12)
    plans = []
    for sec, key in LEAVES:
        if key not in cfg[sec]:
            continue
        for factor in (1.3, 0.75):
            v = copy.deepcopy(cfg)
            v.pop("target", None)
            old = cfg[sec][key]
            if key == "max_boreholes":
                new = 4 if factor > 1 else 9
            elif key == "continue_if_design_unmet":
                if factor < 1:
                    continue
                new = not old
            elif key == "num_months":
                new = 36 if factor > 1 else (12 if old != 12 else 24)
            elif key in ("undisturbed_temp", "max_eft", "min_eft", "temperature", "phase"):
                new = gen.r3(old + (2.0 if factor > 1 else -2.0))
            elif key == "diameter":
                new = gen.r3(old * (1.08 if factor > 1 else 1.0))
            elif key == "shank_spacing":
                new = gen.r3(old * (1.1 if factor > 1 else 0.9))
            else:
                new = gen.r3(old * factor)
            if new == old:
                continue
            v[sec][key] = new
            v["variant_of"] = [f"{sec}.{key}"]
            ops = [{"op": "other", "cfg_key": "variant"}, {"op": "build", "mgr": "A", "order": list(gen.SETTERS), "decoys": [],
                                                            "cfg_key": "base"}, {"op": "find", "mgr": "A"},
                   {"op": "pristine" if prop == "C13" else "pristine_resim", "mgr": "A"}]
            plans.append({"engine": "E1", "property": prop, "cfg": cfg, "cfg2": cfg2, "variant": v, "variant2": v, "ops": ops,
                          "clock": {"start": 0.0, "step": 1.0}, "leaf": f"{which}:{sec}.{key}x{factor}"})
    return plans


def make_plans(jobspec: dict) -> list:
    if jobspec.get("leaf_sweep"):
        allp = leaf_sweep_plans(jobspec["seed"], jobspec["prop"])
        return allp[jobspec["start"]: jobspec["start"] + jobspec["count"]]
    out = []
    for i in range(jobspec["start"], jobspec["start"] + jobspec["count"]):
        rng = derive_rng(jobspec["seed"], "E1", jobspec["prop"], i)
        out.append(draw_plan(rng, jobspec["prop"], jobspec.get("tier", "quick"), jobspec.get("methods"), jobspec.get("max_ops"),
                             jobspec.get("target")))
    return out


def run_many(jobspec: dict) -> dict:
    outs = []
    for k, plan in enumerate(make_plans(jobspec)):
        i = jobspec["start"] + k
        r = run_plan(plan)
        r["index"] = i
        if r["status"] == "violation":
            r["plan"] = plan
            r["jobspec"] = jobspec
        if plan.get("leaf"):
            r.setdefault("count", {})["leaf_sweep_plans"] = 1
            r.setdefault("sets", {})["leaves_swept"] = [plan["leaf"]]
        if i % 5:
            r.pop("sample", None)
        outs.append(r)
    return {"status": "ok", "results": outs}


def minimise(plan: dict, vclass: str, budget: int, hint=None):
    """ddmin over the operation list (the leading build+find are kept), then drop decoys / permutation / second config."""
    from .kernel import ddmin_list

    budget = [min(budget, 25)]
    head, tail = plan["ops"][:2], plan["ops"][2:]

    def fails_ops(t):
        q = dict(plan)
        q["ops"] = head + t
        try:
            return vclass in vclasses(run_plan(q))
        except Exception:  # noqa: BLE001
            return False

    steps = 0
    if tail:
        t2 = ddmin_list(tail, fails_ops, budget)
        steps += len(tail) - len(t2)
        tail = t2
    cur = dict(plan)
    cur["ops"] = head + tail
    # simplify the build op
    for simpl in ({"decoys": []}, {"order": list(gen.SETTERS)}):
        if budget[0] <= 0:
            break
        q = copy.deepcopy(cur)
        q["ops"][0].update(simpl)
        if q != cur:
            budget[0] -= 1
            try:
                if vclass in vclasses(run_plan(q)):
                    cur = q
                    steps += 1
            except Exception:  # noqa: BLE001
                pass
    return cur, steps
