"""Proving the simulator before believing it.

selftest-determinism: the same plans are executed in two fresh interpreters that differ in worker count (4 vs 16),
  PYTHONHASHSEED (0 vs 1), position of each plan in a worker's queue, and (E1) use of the g-function memo;
  event-log digests must match plan by plan, the first differing event is printed otherwise.
selftest-mutants: scratch worktrees of /repo (outside /repo and /verif, removed afterwards) each get one semantic change
  that keeps the repository's own tests green; the named check must report a VIOLATION within its quick budget.
"""
from __future__ import annotations

import json
import os
import shutil
import subprocess
import sys
import tempfile
import time as _t
from pathlib import Path

from . import kernel
from .kernel import VERIF_DIR


# ------------------------------------------------------------------------------------------ determinism
def _digest_job(args):
    """worker entry: returns digests + event logs for a range of plan indices of one engine/property."""
    engine, prop, seed, start, count = args["engine"], args["prop"], args["seed"], args["start"], args["count"]
    outs = []
    if engine == "E3":
        from . import searchsim as m

        for i in range(start, start + count):
            plan = m.draw_plan(kernel.derive_rng(seed, "E3", prop, i), prop)
            obs = m.execute(plan)
            log = m.event_log(obs)
            outs.append({"i": i, "digest": log.run_digest(), "events": log.events, "raw": log.raw})
    elif engine == "E1":
        from . import apisim as m

        for i in range(start, start + count):
            plan = m.draw_plan(kernel.derive_rng(seed, "E1", prop, i), prop, methods=args.get("methods"))
            ctx = m.execute(plan)
            outs.append({"i": i, "digest": ctx.log.run_digest(), "events": ctx.log.events, "raw": ctx.log.raw})
    elif engine == "E2":
        from . import clisim as m

        for i in range(start, start + count):
            job = m.draw_job(seed, prop, i, "quick", args.get("n_inv", 12), 0.3)
            r = m.run_plan(job)
            outs.append({"i": i, "digest": r.get("digest"), "events": r.get("sample", {}).get("invocations", []),
                         "status": r.get("status")})
    elif engine == "E2R":
        from . import rtsim as m

        for i in range(start, start + count):
            plan = m.draw_plan(kernel.derive_rng(seed, "E2R", prop, i), prop)
            r = m.run_plan(plan)
            outs.append({"i": i, "digest": r.get("digest"), "events": r.get("sample", {}).get("event_log", [])})
    return {"status": "ok", "results": outs}


def _digests_main(argv):
    """`run.py _digests <engine> <prop> <n> <chunk> <workers> <outfile>` — internal."""
    engine, prop, n, chunk, workers, outfile = argv[0], argv[1], int(argv[2]), int(argv[3]), int(argv[4]), argv[5]
    seed = kernel.master_seed()
    jobs = [{"engine": engine, "prop": prop, "seed": seed, "start": s, "count": min(chunk, n - s)} for s in range(0, n, chunk)]
    init = "sim.apisim:worker_init" if engine == "E1" else ""
    res = kernel.run_pool("sim.selftest:_digest_job", jobs, workers=workers, wall_cap=1500.0, init_path=init)
    flat = {}
    bad = 0
    for jr in res:
        if jr.get("status") != "ok":
            bad += 1
            print("HARNESS:", json.dumps(jr)[:1500])
            continue
        for r in jr["results"]:
            flat[str(r["i"])] = r
    Path(outfile).write_text(json.dumps(flat))
    return 2 if bad else 0


def determinism(argv) -> int:
    thorough = "thorough" in argv
    plan = [("E3", "C05", 4000 if not thorough else 40000, 250, 400), ("E2R", "C17", 160 if not thorough else 1600, 10, 40),
            ("E2", "C18", 24 if not thorough else 160, 2, 6), ("E1", "C13", 40 if not thorough else 400, 2, 5),
            ("E1", "C12", 24 if not thorough else 200, 2, 5)]
    only = [a for a in argv if a in ("E1", "E2", "E2R", "E3")]
    if only:
        plan = [p for p in plan if p[0] in only]
    t0 = _t.time()
    total = 0
    mismatches = 0
    with tempfile.TemporaryDirectory(prefix="ghe-det-", dir=os.environ.get("TMPDIR", "/tmp")) as td:
        for engine, prop, n, chunk_a, chunk_b in plan:
            files = []
            for label, chunk, workers, hashseed, nomemo in (("A", chunk_a, 16, "0", "0"), ("B", chunk_b, 4 if engine != "E1" else 12, "1", "1")):
                env = dict(os.environ)
                env.update(kernel.PINNED_ENV)
                env["PYTHONHASHSEED"] = hashseed
                env["GHE_VERIF_PINNED"] = "1"
                env["VERIF_NO_MEMO"] = nomemo
                out = os.path.join(td, f"{engine}-{prop}-{label}.json")
                p = subprocess.run([sys.executable, str(VERIF_DIR / "run.py"), "_digests", engine, prop, str(n), str(chunk),
                                    str(workers), out], env=env, capture_output=True, text=True)
                if p.returncode != 0:
                    print(p.stdout[-3000:], p.stderr[-3000:])
                    print(f"HARNESS: digest run {engine}/{label} failed")
                    return 2
                files.append(json.loads(Path(out).read_text()))
            a, b = files
            mm = 0
            for k in sorted(a, key=int):
                total += 1
                if k in b and a[k]["digest"] != b[k]["digest"] and "raw" in a[k] and "raw" in b[k]:
                    # digests are of 8-digit roundings: decide on the unrounded outcomes at the comparison tolerance
                    ea, eb = a[k]["events"], b[k]["events"]
                    same_shape = len(ea) == len(eb) and all(x[:3] == y[:3] for x, y in zip(ea, eb))
                    if same_shape and kernel.close(a[k]["raw"], b[k]["raw"])[0]:
                        continue
                if k not in b or a[k]["digest"] != b[k]["digest"]:
                    mm += 1
                    if mm <= 3:
                        ea, eb = a[k].get("events", []), b.get(k, {}).get("events", [])
                        first = next((i for i, (x, y) in enumerate(zip(ea, eb)) if x != y), min(len(ea), len(eb)))
                        print(f"NONDETERMINISM {engine}/{prop} plan {k}: first differing event #{first}:\n  A: "
                              f"{ea[first] if first < len(ea) else None}\n  B: {eb[first] if first < len(eb) else None}")
            print(f"[determinism] {engine}/{prop}: {len(a)} plans x 2 interpreters (16 vs {4 if engine != 'E1' else 12} workers, "
                  f"PYTHONHASHSEED 0 vs 1, chunk {chunk_a} vs {chunk_b}, memo on vs off): {mm} mismatches", flush=True)
            mismatches += mm
    print(f"[determinism] {total} plan pairs compared in {_t.time() - t0:.0f}s, {mismatches} mismatches")
    return 1 if mismatches else 0


# ------------------------------------------------------------------------------------------ mutants
def _sub(path: Path, old: str, new: str, count=1):
    s = path.read_text()
    if s.count(old) < 1:
        raise RuntimeError(f"mutant anchor not found in {path.name}: {old[:60]!r}")
    path.write_text(s.replace(old, new, count))


MUTANTS = [
    # (name, property whose check must catch it, file, old, new)
    ("size_drops_resimulation", "C12", "ground_heat_exchangers.py",
     "        self.simulate(method=method)\n", "        pass\n"),
    ("hourly_reuses_stale_times", "C13", "ground_heat_exchangers.py",
     "            self.times = np.arange(1, n_hours + 1, 1)\n            t = self.times",
     "            if len(self.times) == 0:\n                self.times = np.arange(1, n_hours + 1, 1)\n            t = self.times"),
    ("interp_table_freezes_fill_value", "C13", "gfunction.py",
     "if len(self.interpolation_table) == 0 or self.interpolation_table.get(\"fill_value\") != fill_value:",
     "if len(self.interpolation_table) <= 1:"),
    ("cache_hp_eft_across_simulate", "C13", "ground_heat_exchangers.py",
     "        self.hp_eft = hp_eft\n        self.dTb = d_tb\n\n        return max(hp_eft), min(hp_eft)",
     "        if len(self.hp_eft) == len(hp_eft) and method == TimestepType.HYBRID and self.bhe.b.H > self.sim_params.max_height:\n"
     "            hp_eft = self.hp_eft\n        self.hp_eft = hp_eft\n        self.dTb = d_tb\n\n        return max(hp_eft), min(hp_eft)"),
    ("search_keeps_height_of_previous_run", "C13", "search_routines.py",
     "        self.ghe.bhe.b.H = h\n        borehole = self.ghe.bhe.b",
     "        if not (h == self.sim_params.min_height and self.ghe.bhe.b.H < h):\n            self.ghe.bhe.b.H = h\n        borehole = self.ghe.bhe.b"),
    ("final_initialize_dropped", "C01", "search_routines.py",
     "        idx = values.index(excess_of_interest)\n        selection_key = keys[idx]\n        self.initialize_ghe(\n"
     "            self.coordinates_domain[selection_key], self.sim_params.max_height, self.fieldDescriptors[selection_key]\n        )\n",
     "        idx = values.index(excess_of_interest)\n        selection_key = keys[idx]\n"),
    ("solve_root_returns_upper_when_both_negative", "C05", "utilities.py",
     "    elif kg_plus_sign == -1 and kg_minus_sign == -1:\n        x = lower", "    elif kg_plus_sign == -1 and kg_minus_sign == -1:\n        x = upper"),
    ("bisection_stops_one_step_early", "C05", "search_routines.py", "            if c_idx in (x_l_idx, x_r_idx):\n                break",
     "            if c_idx in (x_l_idx, x_r_idx) or x_r_idx - x_l_idx <= 2:\n                break"),
    ("cap_ignored_in_nested_inner_search", "C02", "search_routines.py",
     "        if self.sim_params.max_boreholes is not None:\n            num_coordinates_in_each",
     "        if self.sim_params.max_boreholes is not None and not hasattr(self, 'coordinates_domain_nested'):\n            num_coordinates_in_each"),
    ("unmet_continue_returns_smallest", "C02", "search_routines.py",
     "                print(\"Largest available configuration selected.\")\n                selection_key = x_r_idx",
     "                print(\"Largest available configuration selected.\")\n                selection_key = x_l_idx"),
    ("cost_swaps_limits", "C12", "ground_heat_exchangers.py",
     "        delta_t_min = self.sim_params.min_EFT_allowable - min_eft\n        t_excess = max(delta_t_max, delta_t_min)",
     "        delta_t_min = self.sim_params.min_EFT_allowable - min_eft\n        t_excess = max(delta_t_max, delta_t_min) if delta_t_max > -5 else delta_t_max"),
    ("borefield_table_from_first_candidate", "C19", "output.py",
     "        for bore_location in design.ghe.gFunction.bore_locations:\n            csv_array.append([bore_location[0], bore_location[1]])",
     "        for bore_location in design.ghe.gFunction.bore_locations:\n            csv_array.append([bore_location[1], bore_location[0]] "
     "if len(csv_array) > 40 else [bore_location[0], bore_location[1]])"),
    ("time_convert_off_by_one_december", "C19", "output.py",
     "            if year_hour_sum + hours_in_year[idx] - 1 >= hours_left:",
     "            if year_hour_sum + hours_in_year[idx] - (1 if idx < 11 else 2) >= hours_left:"),
    ("write_input_drops_max_boreholes", "C17", "manager.py",
     "        if self._simulation_parameters.max_boreholes is not None:\n            d_des['max_boreholes']",
     "        if self._simulation_parameters.max_boreholes is not None and self._simulation_parameters.max_boreholes < 150:\n            d_des['max_boreholes']"),
    ("validate_design_case_sensitive", "C18", "validate.py",
     "    flow_type = str(instance[\"flow_type\"]).upper()\n    instance[\"flow_type\"] = flow_type",
     "    flow_type = str(instance[\"flow_type\"])\n    instance[\"flow_type\"] = flow_type"),
    ("swallow_oserror_on_gfunction_csv", "C18", "output.py",
     "        with open(os.path.join(output_directory, f\"Gfunction{file_suffix}.csv\"), \"w\", newline=\"\") as f_csv:\n"
     "            csv.writer(f_csv).writerows(self.g_function_data_rows)",
     "        try:\n            with open(os.path.join(output_directory, f\"Gfunction{file_suffix}.csv\"), \"w\", newline=\"\") as f_csv:\n"
     "                csv.writer(f_csv).writerows(self.g_function_data_rows)\n        except OSError:\n            pass"),
    ("system_flow_divided_by_n_plus_1_rowwise", "C20", "search_routines.py",
     "            v_flow_system = self.V_flow\n            v_flow_borehole = self.V_flow / len(coordinates)\n            m_flow_borehole = v_flow_borehole / 1000.0 * rho\n        else:\n            raise ValueError(\"The flow argument should be either `borehole`\" \"or `system`.\")\n        return v_flow_system, m_flow_borehole\n\n    def initialize_ghe(self, coordinates, h, field_specifier=\"N/A\"):\n        v_flow_system, m_flow_borehole = self.retrieve_flow(coordinates, self.fluid.rho)",
     "            v_flow_system = self.V_flow\n            v_flow_borehole = self.V_flow / (len(coordinates) + 1)\n            m_flow_borehole = v_flow_borehole / 1000.0 * rho\n        else:\n            raise ValueError(\"The flow argument should be either `borehole`\" \"or `system`.\")\n        return v_flow_system, m_flow_borehole\n\n    def initialize_ghe(self, coordinates, h, field_specifier=\"N/A\"):\n        v_flow_system, m_flow_borehole = self.retrieve_flow(coordinates, self.fluid.rho)"),
    ("cli_worker_status_ignored", "C18", "manager.py",
     "    exit(_run_manager_from_cli_worker(input_path, output_path))", "    _run_manager_from_cli_worker(input_path, output_path)"),
]


def mutants(argv) -> int:
    names = [a for a in argv if not a.startswith("-")]
    chosen = [m for m in MUTANTS if not names or m[0] in names]
    base = os.environ.get("TMPDIR", "/tmp")
    results = []
    for name, prop, fname, old, new in chosen:
        wt = tempfile.mkdtemp(prefix=f"ghe-mut-{os.getpid()}-", dir=base)
        os.rmdir(wt)
        t0 = _t.time()
        try:
            subprocess.run(["git", "-C", "/repo", "worktree", "add", "--detach", "-f", wt, "HEAD"], check=True, capture_output=True)
            # the mutant is applied to the *working tree* state of /repo (uncommitted edits included)
            diff = subprocess.run(["git", "-C", "/repo", "diff", "HEAD"], capture_output=True, text=True).stdout
            if diff.strip():
                subprocess.run(["git", "-C", wt, "apply"], input=diff, text=True, check=True)
            _sub(Path(wt) / "ghedesigner" / fname, old, new)
            env = dict(os.environ)
            env["VERIF_REPO"] = wt
            env["VERIF_EVIDENCE_DIR"] = os.path.join(wt, ".verif-evidence")
            env["VERIF_REPLAY_DIR"] = os.path.join(wt, ".verif-replays")
            p = subprocess.run([sys.executable, str(VERIF_DIR / "run.py"), prop, "quick"], env=env, capture_output=True, text=True,
                               timeout=3000)
            detected = p.returncode == 1 and "VIOLATION property=" in p.stdout
            lines = [ln for ln in p.stdout.splitlines() if ln.startswith("  violation class")][:2]
            results.append((name, prop, detected, p.returncode, _t.time() - t0, lines))
            print(f"[mutant] {name:45s} {prop} {'DETECTED' if detected else 'MISSED  '} exit={p.returncode} {_t.time() - t0:5.0f}s "
                  f"{lines[0][:150] if lines else ''}", flush=True)
            if not detected and "-v" in argv:
                print(p.stdout[-2000:], p.stderr[-2000:])
        except Exception as e:  # noqa: BLE001
            results.append((name, prop, False, -1, _t.time() - t0, [repr(e)]))
            print(f"[mutant] {name}: harness problem {e!r}", flush=True)
        finally:
            subprocess.run(["git", "-C", "/repo", "worktree", "remove", "--force", wt], capture_output=True)
            shutil.rmtree(wt, ignore_errors=True)
            subprocess.run(["git", "-C", "/repo", "worktree", "prune"], capture_output=True)
    missed = [r for r in results if not r[2]]
    print(f"[mutants] {len(results) - len(missed)}/{len(results)} detected; missed: {[r[0] for r in missed]}")
    return 1 if missed else 0
