"""Command-line driver: `run.py <Cxx> quick|thorough`, `run.py replay <file>`,
`run.py selftest-determinism`, `run.py selftest-mutants`.

Exit 0: property held on everything explored (known findings are listed as KNOWN-FINDING lines).
Exit 1: at least one violation not listed in known_findings.json; each printed as
        `VIOLATION property=<id> replay=<path>` after its replay file reproduced it in a fresh interpreter.
Exit 2: harness error / timeout (never reported as a property verdict).
"""
from __future__ import annotations

import collections
import json
import os
import subprocess
import sys
import time as _t
from pathlib import Path

from . import kernel
from .kernel import VERIF_DIR

WORKERS = int(os.environ.get("VERIF_WORKERS", "16"))
INIT_PATHS = {"E1": "sim.apisim:worker_init"}
MAX_GROUPS_PER_CLASS = 2


def log(*a):
    print(*a, flush=True)


# ------------------------------------------------------------------------------------ engine registry
def engine_module(engine: str):
    if engine == "E3":
        from . import searchsim as m
    elif engine == "E2":
        from . import clisim as m
    elif engine == "E2R":
        from . import rtsim as m
    elif engine == "E1":
        from . import apisim as m
    else:
        raise ValueError(engine)
    return m


# ------------------------------------------------------------------------------------ generic batch runner
class Batch:
    """Accumulates per-run results of one engine for one property."""

    def __init__(self, prop, engine):
        self.prop = prop
        self.engine = engine
        self.n = 0
        self.counters = collections.Counter()
        self.digests = set()
        self.nontrivial = set()
        self.violations = []  # result dicts with plan
        self.harness = []
        self.samples = []
        self.extra = collections.Counter()
        self.sets = collections.defaultdict(set)

    def add(self, r: dict):
        st = r.get("status")
        if st in ("harness_error", "harness_timeout"):
            self.harness.append(r)
            return
        if st == "skipped":
            self.counters["skipped"] += 1
            return
        self.n += 1
        self.counters[f"status:{st}"] += 1
        for k, v in (r.get("count") or {}).items():
            self.extra[k] += v
        for k, vs in (r.get("sets") or {}).items():
            self.sets[k].update(vs)
        d = r.get("digest")
        if d:
            self.digests.add(d)
            if r.get("nontrivial"):
                self.nontrivial.add(d)
        if st == "violation":
            self.violations.append(r)
            for ov in r.get("more_violations", []):
                q = dict(r)
                q["violation"] = ov
                self.violations.append(q)
        if r.get("sample") is not None and len(self.samples) < 6:
            self.samples.append(r["sample"])


def handle_violations(prop: str, engine: str, violations: list, tier: str):
    """Returns (new_violation_lines, known_lines).  Every new violation class is minimised, written as a
    replay file, replayed in a fresh interpreter and only then reported."""
    mod = engine_module(engine)
    known = kernel.load_known_findings()
    groups = collections.OrderedDict()
    for r in violations:
        v = r["violation"]
        key = (v["vclass"], json.dumps(v.get("features", {}), sort_keys=True))
        groups.setdefault(key, []).append(r)
    new_lines, known_hits = [], collections.OrderedDict()
    per_class = collections.Counter()
    for key, rs in groups.items():
        v = rs[0]["violation"]
        kf = kernel.match_known(prop, v, known)
        if kf is not None:
            known_hits.setdefault(kf["id"], [kf, 0])
            known_hits[kf["id"]][1] += len(rs)
            continue
        per_class[v["vclass"]] += 1
        if per_class[v["vclass"]] > MAX_GROUPS_PER_CLASS:
            # further feature groups of an already reported class: listed, not minimised (cost), still counted as new
            log(f"  also violation class {v['vclass']} with features {v.get('features')} ({len(rs)} runs): {v['detail'][:200]}")
            new_lines.append(("dup", v, len(rs), 0))
            continue
        # minimise the cheapest instance
        r0 = min(rs, key=lambda r: r.get("cost", 0))
        plan = r0["plan"]
        budget = 400 if tier == "thorough" else 60
        try:
            if "invocation" in v:
                plan_min, steps = mod.minimise(plan, v["vclass"], budget, hint=v["invocation"])
            else:
                plan_min, steps = mod.minimise(plan, v["vclass"], budget)
        except Exception as e:  # noqa: BLE001
            log(f"[minimise] failed ({e!r}); keeping the original plan")
            plan_min, steps = plan, 0
        path = kernel.write_replay(prop, plan_min, v, r0.get("digest", ""))
        ok, out = replay_in_fresh_process(path)
        if not ok:
            # fall back to the unminimised plan before giving up
            path = kernel.write_replay(prop, plan, v, r0.get("digest", ""))
            ok, out = replay_in_fresh_process(path)
        if not ok and r0.get("jobspec"):
            # not reproducible from the plan alone: the cause may lie in the plans that ran before it in the same job process
            # (process-global state).  Replay the job prefix that ends with this plan.
            js = r0["jobspec"]
            k = r0["index"] - js["start"]
            prefix = mod.make_plans(js)[: k + 1]
            body = {"engine": plan.get("engine"), "plans": prefix, "init": INIT_PATHS.get(plan.get("engine"), "")}
            path = kernel.write_replay(prop, body, v, r0.get("digest", ""))
            ok, out = replay_in_fresh_process(path)
            if ok:
                log(f"  (violation class {v['vclass']} reproduces only together with the {k} plan(s) that ran before it in its job: "
                    f"process-global state)")
        if ok:
            new_lines.append((path, v, len(rs), steps))
        else:
            log(f"HARNESS: violation {v['vclass']} of {prop} did not reproduce from its replay file {path}:\n{out[-2000:]}")
            new_lines.append((None, v, len(rs), steps))
    return new_lines, known_hits


def replay_in_fresh_process(path: Path):
    env = dict(os.environ)
    env.update(kernel.PINNED_ENV)
    env["GHE_VERIF_PINNED"] = "1"
    p = subprocess.run([sys.executable, str(VERIF_DIR / "run.py"), "replay", str(path), "--quiet"], env=env,
                       capture_output=True, text=True, timeout=1800)
    return p.returncode == 1 and "REPRODUCED" in p.stdout, p.stdout + p.stderr


def cmd_replay(path: str, quiet=False) -> int:
    body = json.loads(Path(path).read_text())
    plan = body["plan"]
    mod = engine_module(plan["engine"])
    if "plans" in plan:
        # a job prefix: executed in order in this one process, the verdict is that of the last plan
        if plan.get("init"):
            kernel._resolve(plan["init"])()
        r = None
        for q in plan["plans"]:
            r = mod.run_plan(q)
    else:
        r = mod.run_plan(plan)
    want = body["violation"]["vclass"]
    if r["status"] == "violation" and want in kernel.vclasses(r):
        log(f"REPRODUCED property={body['property']} vclass={want} digest={r.get('digest')}")
        if not quiet:
            log(json.dumps([r["violation"]] + r.get("more_violations", []), indent=1))
        return 1
    log(f"NOT-REPRODUCED status={r['status']} got={r.get('violation', {}).get('vclass')} want={want}")
    if r["status"] == "harness_error":
        log(r.get("trace", ""))
    return 0


# ------------------------------------------------------------------------------------ property specs
def spec_for(prop: str, tier: str):
    from . import specs

    return specs.SPECS[prop](tier)


def cmd_check(prop: str, tier: str) -> int:
    seed = kernel.master_seed()
    log(f"VERIF_SEED={seed} property={prop} tier={tier} workers={WORKERS}")
    t0 = _t.time()
    from . import seams

    seams.sweep_stale_scratch()
    spec = spec_for(prop, tier)
    batches = []
    harness_problems = 0
    for part in spec["parts"]:
        engine = part["engine"]
        mod = engine_module(engine)
        jobs = part["jobs"](seed)
        b = Batch(prop, engine)
        t1 = _t.time()
        deadline = t1 + part["budget_s"] if part.get("budget_s") else None
        res = kernel.run_pool(f"{mod.__name__}:run_many", jobs, workers=WORKERS, wall_cap=part.get("wall_cap", 300.0),
                              init_path=part.get("init", ""), deadline=deadline)
        for jr in res:
            if jr.get("status") in ("harness_error", "harness_timeout"):
                b.harness.append(jr)
                continue
            if jr.get("status") == "skipped":
                b.counters["jobs_skipped"] += 1
                continue
            for r in jr["results"]:
                b.add(r)
        b.wall = _t.time() - t1
        log(f"[{engine}] {b.n} runs in {b.wall:.1f}s ({b.n / max(b.wall, 1e-9) * 3600:.0f}/h), "
            f"{len(b.digests)} distinct histories, {len(b.violations)} violating runs, {len(b.harness)} harness problems")
        harness_problems += len(b.harness)
        for h in b.harness[:3]:
            log("HARNESS:", json.dumps(h)[:3000])
        batches.append((part, b))
    # violations
    exit_code = 0
    n_new = 0
    known_all = collections.OrderedDict()
    for part, b in batches:
        new_lines, known_hits = handle_violations(prop, b.engine, b.violations, tier)
        for kid, (kf, cnt) in known_hits.items():
            known_all.setdefault(kid, [kf, 0])
            known_all[kid][1] += cnt
        for path, v, cnt, steps in new_lines:
            n_new += 1
            if path == "dup":
                continue
            if path is None:
                harness_problems += 1
                continue
            log(f"  violation class {v['vclass']} ({cnt} runs; minimised in {steps} steps): {v['detail']}")
            log(f"VIOLATION property={prop} replay={path}")
            exit_code = 1
    for kid, (kf, cnt) in known_all.items():
        log(f"KNOWN-FINDING: property={prop} {kf['id']}: {kf['what']} [{cnt} runs]")
    wall = _t.time() - t0
    cov = spec["coverage"](batches, tier)
    cov["known_findings_hit"] = {k: c for k, (f, c) in known_all.items()}
    cov["harness_problems"] = harness_problems
    cov["wall_s_total"] = round(wall, 1)
    kernel.write_evidence(prop, tier, seed, spec["level"], cov, wall, n_new, spec["assumptions"])
    if exit_code == 0 and not harness_problems:
        complaints = spec["sanity"](cov.get("counters", {})) if spec.get("sanity") else []
        if complaints:
            for c in complaints:
                log(f"HARNESS: workload did not exercise the property: {c}")
            log("exit 2 (no verdict): a run that never reaches the statement's subject must not count as 'held'")
            return 2
    if exit_code == 0 and harness_problems:
        log(f"HARNESS: {harness_problems} runs ended in harness errors/timeouts — no verdict for those; exit 2")
        return 2
    log(f"done in {wall:.1f}s exit={exit_code}")
    return exit_code


def main(argv=None):
    argv = list(sys.argv[1:] if argv is None else argv)
    kernel.reexec_pinned()
    kernel.repo_on_path()
    if not argv:
        log(__doc__)
        return 2
    if argv[0] == "replay":
        return cmd_replay(argv[1], quiet="--quiet" in argv)
    if argv[0] == "_fresh":
        from . import apisim

        return apisim.fresh_main(argv[1])
    if argv[0] == "_resim":
        from . import apisim

        return apisim.resim_main(argv[1])
    if argv[0] == "_digests":
        from . import selftest

        return selftest._digests_main(argv[1:])
    if argv[0] == "selftest-determinism":
        from . import selftest

        return selftest.determinism(argv[1:])
    if argv[0] == "selftest-mutants":
        from . import selftest

        return selftest.mutants(argv[1:])
    prop = argv[0]
    tier = argv[1] if len(argv) > 1 else os.environ.get("VERIF_TIER", "quick")
    return cmd_check(prop, tier)
