"""Per-property check specifications: which engines run, how many plans per tier, and how the
evidence coverage block is assembled from what the runs measured."""
from __future__ import annotations

import collections

REAL_E3 = ["GHEManager setters/set_design/find_design", "design.py constructors", "domains.py candidate generators",
           "Bisection1D/Bisection2D/BisectionZD/RowWiseModifiedBisectionSearch", "GHE.size", "BaseGHE.cost",
           "utilities.solve_root/sign/check_bracket/borehole_spacing", "media.GHEFluid (density)"]
STUB_E3 = ["GHE constructor/simulate/compute_g_functions (synthetic evaluator)", "calc_g_func_for_multiple_lengths",
           "RowWise field generator (grid stub) for ROWWISE runs"]


def _chunks(prop, seed, total, size, **extra):
    jobs = []
    start = 0
    while start < total:
        c = min(size, total - start)
        j = {"prop": prop, "seed": seed, "start": start, "count": c}
        j.update(extra)
        jobs.append(j)
        start += c
    return jobs


def _merge(batches):
    extra = collections.Counter()
    sets = collections.defaultdict(set)
    n = 0
    digests = set()
    nontrivial = set()
    samples = []
    per_engine = {}
    for part, b in batches:
        extra.update(b.extra)
        for k, v in b.sets.items():
            sets[k].update(v)
        n += b.n
        digests |= {(b.engine, d) for d in b.digests}
        nontrivial |= {(b.engine, d) for d in b.nontrivial}
        samples.extend(b.samples[:4])
        key = b.engine
        k = 2
        while key in per_engine:
            key = f"{b.engine}-part{k}"
            k += 1
        per_engine[key] = {"runs": b.n, "wall_s": round(getattr(b, "wall", 0.0), 1),
                                "runs_per_hour": int(b.n / max(getattr(b, "wall", 1e-9), 1e-9) * 3600),
                                "distinct_histories": len(b.digests), "statuses": dict(b.counters)}
    return extra, sets, n, digests, nontrivial, samples, per_engine


def _generic_coverage(rule, real, stub, extra_fn=None):
    def cov(batches, tier):
        extra, sets, n, digests, nontrivial, samples, per_engine = _merge(batches)
        c = {
            "evaluations": n,
            "distinct_nontrivial": len(nontrivial),
            "rule": rule,
            "samples": samples[:6] or ["<no run completed>"],
            "distinct_histories": len(digests),
            "engines": per_engine,
            "counters": dict(sorted(extra.items())),
            "fault_kinds_fired": {k.split(":", 1)[1]: v for k, v in sorted(extra.items()) if k.startswith("fault:")},
            "probes": {k.split(":", 1)[1]: v for k, v in sorted(extra.items()) if k.startswith("probe:")},
            "distinct": {k: len(v) for k, v in sets.items()},
            "components_real": real,
            "components_stubbed": stub,
            "exhaustive": False,
        }
        if "list_len" in sets:
            c["candidate_list_lengths_reached"] = sorted(sets["list_len"])[:80]
        if extra_fn:
            extra_fn(c, extra, sets)
        return c

    return cov


E3_RULE = ("seeded plans (VERIF_SEED -> sha256 -> PRNG): design method, lot / spacing window, height window, borehole cap, "
           "unmet policy, flow spec, evaluator mode (monotone / adversarial sign pattern / faulty = ValueError at k-th "
           "evaluation) and feasibility threshold; one plan = one find_design against the stub evaluator.  A run is "
           "non-trivial when the search queried the evaluator at least 3 times; distinct = distinct SHA-256 of the "
           "recorded event log (every query, answer, flow value and the outcome).")


def spec_c02(tier):
    total = 60_000 if tier == "quick" else 3_000_000
    return {
        "level": "exploration",
        "parts": [{"engine": "E3", "jobs": lambda seed: _chunks("C02", seed, total, 500), "wall_cap": 600.0}],
        "coverage": _generic_coverage(E3_RULE, REAL_E3, STUB_E3),
        "assumptions": [
            "the evaluator is a synthetic stand-in; policy assertions are made from the recorded answers, never from the "
            "stub's hidden threshold",
            "lots are generated so that every side admits an integer row count n>=3 with b_min <= side/(n-1) <= b_max "
            "(narrower lots make the generators yield empty lists by design); empty candidate lists are skipped as "
            "degenerate input",
            "exact-zero excess is never produced by the stub (sign(0) divides by zero; excluded as degenerate)",
        ],
    }


def spec_c05(tier):
    total = 60_000 if tier == "quick" else 3_000_000
    return {
        "level": "exploration",
        "parts": [{"engine": "E3", "jobs": lambda seed: _chunks("C05", seed, total, 500), "wall_cap": 600.0}],
        "coverage": _generic_coverage(E3_RULE + "  List lengths and threshold positions are a measured count of a seeded "
                                      "search, not the exhaustive enumeration the property's quantifier text mentions.",
                                      REAL_E3, STUB_E3),
        "assumptions": [
            "root clause is evaluated on the stub's own excess law at the returned height",
            "predecessor clause only for near-square / rectangle / bi-rectangle under a monotone evaluator and only "
            "when the selected candidate itself was recorded feasible (i.e. not an unmet-but-continued pick)",
        ],
    }


def spec_c20(tier):
    total = 40_000 if tier == "quick" else 1_500_000
    return {
        "level": "exploration",
        "parts": [{"engine": "E3", "jobs": lambda seed: _chunks("C20", seed, total, 500), "wall_cap": 600.0}],
        "coverage": _generic_coverage(E3_RULE, REAL_E3, STUB_E3),
        "assumptions": ["E3 checks the flow values the search classes hand to the evaluator and to the g-function "
                        "calculation; what BaseGHE.__init__ recomputes from them is checked in E1 (real physics)"],
    }


REAL_E2 = ["click command run_manager_from_cli (in-process, standalone mode)", "_run_manager_from_cli_worker", "validate.py",
           "GHEManager setters + write_input_file", "utilities.write_idf", "OutputManager.write_all_output_files",
           "find_design (real on first use of an input text, replayed from a per-job memo afterwards)"]
STUB_E2 = ["file system below the run directory: builtins.open / io.open / os.mkdir shim with injected errors",
           "process exit: SystemExit / uncaught exception mapped to the interpreter's status "
           "(cross-checked against a real subprocess on a sample)", "wall clock (virtual)"]


def _e2_jobs(prop, seed, tier, n_jobs, n_inv, design_fraction, per_job=1, enumerate_first=0, **extra):
    jobs = []
    for s in range(0, n_jobs, per_job):
        j = {"prop": prop, "seed": seed, "start": s, "count": min(per_job, n_jobs - s), "n_inv": n_inv,
             "design_fraction": design_fraction, "tier": tier, "fidelity_every": 13}
        if s < enumerate_first:
            j["enumerate"] = True
        j.update(extra)
        jobs.append(j)
    return jobs


def spec_c18(tier):
    if tier == "quick":
        n_jobs, n_inv, enum = 64, 40, 12
    else:
        n_jobs, n_inv, enum = 1600, 60, 400
    rule = ("one job = one base configuration written by the tool itself + a sequence of simulated command-line invocations "
            "(flags x stored-input fault x output-I/O fault plan).  Fault *kinds* and (section,key) sites are enumerated "
            "completely for the first `enumerated_jobs` base configurations (every key of every section x "
            "{delete, wrong type, out of range, unknown enum}, section deleted / replaced by a scalar, loads 8759/8761/"
            "non-numeric); values, byte offsets, n-th write and the base configuration are seeded.  Every invocation is "
            "non-trivial (it runs the real CLI); distinct = distinct digests of a job's (argv, fault, status, files) log.")

    def extra(c, counters, sets):
        c["enumerated_jobs"] = enum
        c["distinct_input_fault_sites"] = len(sets.get("fault_sites", ()))
        c["io_fault_sites_hit"] = sorted(sets.get("io_fault_files", ()))
        c["flags_x_verdict_x_status_reached"] = sorted(sets.get("flags_verdict_status", ()))
        c["invocations"] = counters.get("invocations", 0)
        c["jobs"] = c["evaluations"]
        # one evaluation = one simulated invocation of the command line; distinct = distinct (job, flags, fault, seed,
        # status, files-on-disk, faults-fired) digests
        c["evaluations"] = counters.get("invocations", 0)
        c["distinct_nontrivial"] = len(sets.get("invocation_digests", ()))

    return {
        "level": "fault_enumeration",
        "parts": [{"engine": "E2", "jobs": lambda seed: _e2_jobs("C18", seed, tier, n_jobs, n_inv, 0.3, enumerate_first=enum),
                   "wall_cap": 900.0}],
        "coverage": _generic_coverage(rule, REAL_E2, STUB_E2, extra),
        "assumptions": [
            "the tool's schema files are the specification of validity; the reference validator applies them with the five "
            "case-insensitive names upper-cased",
            "an uncaught exception ends a real process with status 1 (validated against real subprocesses on a sample)",
            "exit 0 on a design run must leave six complete files (content-inspected, independent of fault bookkeeping)",
        ],
    }


REAL_E1 = ["GHEManager (all setters, set_design, find_design, prepare_results, write_output_files)", "design.py", "domains.py",
           "search_routines.py (all four classes)", "ground_heat_exchangers.py (GHE.simulate/size/compute_g_functions)",
           "ground_loads.HybridLoad", "radial_numerical_borehole", "borehole_heat_exchangers", "gfunction.GFunction",
           "rowwise.py", "output.OutputManager", "pygfunction (real on first use of an argument tuple)"]
STUB_E1 = ["ghedesigner.gfunction.calculate_g_function: pure memo (frozen g-values replayed for repeated argument tuples) "
           "and abort-injection point", "wall clock: ghedesigner.manager.time / ghedesigner.output.datetime -> virtual clock",
           "file system for reports: scratch directory through builtins.open/io.open/os.mkdir (no faults in E1)"]
E1_RULE = ("seeded plans: one configuration (all six methods, four pipe arrangements, both flow types, five fluids, load family "
           "and magnitude steered towards the outcome classes) + a seeded operation history (build with permuted setters and "
           "decoy values, find, redesign, reconfigure a live manager to a near-identical variant and back, abort-at-k-th-call "
           "then retry (g-function call, simulate entry, a tridiagonal solve inside the short-time-step computation), aborted "
           "size, unrelated / near-identical / leap-year design in between, other nominal height, setter re-called with the same "
           "values, simulate HYBRID/HOURLY at in-/out-of-window heights, size, regenerate g-functions, stand-alone field objects "
           "with a live g-function, report (optionally with an I/O error on the first attempt, another manager's prepare in "
           "between, a second write without prepare), comparison with a pristine interpreter, clock jumps).  "
           "Non-trivial = at least 3 operations; distinct = distinct SHA-256 of the event log "
           "(op, argument digest, outcome digest at 8 significant digits).")


def _e1_extra(c, counters, sets):
    c["abstract_states_visited"] = len(sets.get("abstract_states", ()))
    c["state_op_transitions"] = len(sets.get("transitions", ()))
    c["states"] = c["abstract_states_visited"]
    c["transitions"] = c["state_op_transitions"]
    c["distinct_history_shapes"] = len(sets.get("history_shapes", ()))
    c["outcome_classes_reached"] = sorted(sets.get("outcome_classes", ()))
    c["simulated_ground_loop_months"] = counters.get("simulated_ground_loop_months", 0)
    c["virtual_clock_seconds"] = counters.get("virtual_clock_seconds", 0)
    c["abstract_state_definition"] = ("(has_design, has_search, borehole-H class in {nominal,min,max,interior,out_of_window}, "
                                      "times kind in {none,empty,hybrid,hourly}, interpolation table built, stored heights, "
                                      "results prepared, last find aborted)")


def _e1_part(prop, tier, quick_n, thorough_n, per_job=2, budget_quick=330, budget_thorough=3300, **extra):
    n = quick_n if tier == "quick" else thorough_n

    def jobs(seed):
        js = _chunks(prop, seed, n, per_job, tier=tier, **extra)
        return js

    return {"engine": "E1", "jobs": jobs, "wall_cap": 600.0, "init": "sim.apisim:worker_init",
            "budget_s": budget_quick if tier == "quick" else budget_thorough}


def _leaf_sweep_part(prop, tier):
    def jobs(seed):
        from . import apisim

        n = len(apisim.leaf_sweep_plans(seed, prop))
        return [{"prop": prop, "seed": seed, "start": k, "count": 1, "leaf_sweep": True, "tier": tier} for k in range(n)]

    return {"engine": "E1", "jobs": jobs, "wall_cap": 600.0, "init": "sim.apisim:worker_init", "budget_s": 400}


def spec_c13(tier):
    return {
        "level": "exploration",
        "parts": [_leaf_sweep_part("C13", tier), _e1_part("C13", tier, 200, 4000)],
        "coverage": _generic_coverage(E1_RULE + "  Oracle: after every find-like op the fingerprint (field, height, all "
                                      "temperatures, search log; floats at 1e-9, everything else exact) equals fresh(cfg); after "
                                      "every simulate/size the result equals the same call on a fresh GHE object for that field; "
                                      "untouched reports equal a fresh manager's (clock fields removed).", REAL_E1, STUB_E1, _e1_extra),
        "assumptions": [
            "'identical' = structural equality with floats at rtol=atol=1e-9 (LAPACK-level noise below the repository makes bit "
            "equality unattainable); one pinned environment (OPENBLAS threads = 1, OPENBLAS_CORETYPE=Nehalem, PYTHONHASHSEED=0)",
            "the fresh reference is computed in the same process (memoised per worker); process-global leaks that also affect "
            "the reference are covered only by the cross-process determinism self-test",
            "the fresh GHE reference is constructed at the same height as the object under test (its HybridLoad depends on it)",
        ],
    }


def spec_c12(tier):
    return {
        "level": "exploration",
        "parts": [_e1_part("C12", tier, 200, 3500, max_ops=4)],
        "coverage": _generic_coverage(E1_RULE + "  Every history ends in a report; the oracle parses the written files and "
                                      "re-simulates the same returned object at the reported height.", REAL_E1, STUB_E1, _e1_extra),
        "assumptions": ["only HYBRID in-window operations are placed between find and report (the summary labels the run HYBRID)",
                        "tolerance 1e-3 K (sizing tolerance); the text file additionally to its 3 printed decimals"],
    }


def spec_c19(tier):
    return {
        "level": "exploration",
        "parts": [_e1_part("C19", tier, 200, 3500, max_ops=4)],
        "coverage": _generic_coverage(E1_RULE + "  Per report: all 8760 calendar labels, the load echo, the bore-field table, the "
                                      "g-function table against the live curve, every elapsed-time row against an independent "
                                      "hours->months map.  'All elapsed times at sub-hour resolution' is reached only at the times "
                                      "the hybrid scheme emits.", REAL_E1, STUB_E1, _e1_extra),
        "assumptions": ["calendar reference: datetime arithmetic on the non-leap year 2019",
                        "month boundaries belong to the month that ends there (hours_to_month(744) == 1.0)"],
    }


def spec_c01(tier):
    return {
        "level": "exploration",
        "parts": [_leaf_sweep_part("C01", tier), _e1_part("C01", tier, 180, 3500, max_ops=3)],
        "coverage": _generic_coverage(E1_RULE + "  Post-condition monitor: every completed find without the escape message is "
                                      "re-simulated on the returned object at the returned height.  Input coverage is only what the "
                                      "workload generator's ranges give.", REAL_E1, STUB_E1, _e1_extra),
        "assumptions": ["'escape' is recognised by the tool's own message 'configuration selected.' on stdout"],
    }


def spec_c17(tier):
    n = 800 if tier == "quick" else 24_000
    rule = ("seeded configurations over all six methods (RowWise with and without perimeter ratio), four pipe arrangements, "
            "five fluids, optional cap / continue flag present or absent, setters in seeded order; one plan = save -> both "
            "validators -> CLI loading path -> save again -> compare (+ real design on both managers for a seeded subset of the "
            "cheap methods).  Every plan is non-trivial; distinct = distinct digest of the (file, verdict, reload) log.")

    def extra(c, counters, sets):
        c["variants_x_pipe_x_fluid_reached"] = len(sets.get("variants", ()))

    return {
        "level": "exploration",
        "parts": [{"engine": "E2R", "jobs": lambda seed: _chunks("C17", seed, n, 10, tier=tier, design_fraction=0.1),
                   "wall_cap": 900.0}],
        "coverage": _generic_coverage(rule, ["GHEManager setters + write_input_file", "validate.py",
                                             "_run_manager_from_cli_worker (JSON -> setters)", "geometry/media/simulation/design "
                                             "to_input()", "find_design on both managers for the design subset"],
                                      ["post-loading stages of the CLI worker (find_design/prepare_results/write_output_files) are "
                                       "recording no-ops while the loaded manager is captured", "file system: shim over a scratch "
                                       "directory"], extra),
        "assumptions": ["designs compared to 1e-6 m in height and exact field (RowWise angles go degrees->radians->degrees)",
                        "storage faults are exercised under C18, not here"],
    }


def _with_e1(base_spec_fn, prop, quick_n, thorough_n, **extra):
    def f(tier):
        sp = base_spec_fn(tier)
        if prop == "C05":
            sp["parts"].append(_leaf_sweep_part(prop, tier))
        sp["parts"].append(_e1_part(prop, tier, quick_n, thorough_n, budget_quick=200, budget_thorough=1500, **extra))
        inner = sp["coverage"]

        def cov(batches, tier):
            c = inner(batches, tier)
            c["components_real"] = {"E3": REAL_E3, "E1": REAL_E1}
            c["components_stubbed"] = {"E3": STUB_E3, "E1": STUB_E1}
            return c

        sp["coverage"] = cov
        return sp

    return f


def _need(**mins):
    def sanity(counters):
        out = []
        for k, m in mins.items():
            key = k.replace("__", ":")
            if counters.get(key, 0) < m:
                out.append(f"counter {key!r} = {counters.get(key, 0)} < {m}")
        return out

    return sanity


def _sane(fn, **mins):
    def f(tier):
        sp = fn(tier)
        sp["sanity"] = _need(**mins)
        return sp

    return f


SPECS = {
    "C02": _sane(_with_e1(spec_c02, "C02", 160, 2000, max_ops=2), outcome__design=500, finds_completed_with_design=10),
    "C05": _sane(_with_e1(spec_c05, "C05", 100, 1500, max_ops=3), outcome__design=500, c05_designs_checked=10),
    "C20": _sane(_with_e1(spec_c20, "C20", 100, 1500, max_ops=3), flow_records_checked=1000, twin_evaluations=5),
    "C18": _sane(spec_c18, tag__design__ok=3, tag__validate_only__valid=3, tag__validate_only__invalid=3),
    "C17": _sane(spec_c17, round_trips_completed=50),
    "C13": _sane(spec_c13, finds_completed_with_design=20),
    "C12": _sane(spec_c12, reports=10, search_log_rows_checked=20),
    "C19": _sane(spec_c19, reports=10, calendar_rows_checked=8760),
    "C01": _sane(spec_c01, c01_designs_checked=10),
}
