"""Per-property check specifications: which engines run, how many plans per tier, and how the
evidence coverage block is assembled from what the runs measured."""
from __future__ import annotations

import collections

REAL_E3 = ["GHEManager setters/set_design/find_design", "design.py constructors", "domains.py candidate generators",
           "Bisection1D/Bisection2D/BisectionZD/RowWiseModifiedBisectionSearch", "GHE.size", "BaseGHE.cost",
           "utilities.solve_root/sign/check_bracket/borehole_spacing", "media.GHEFluid (density)"]
STUB_E3 = ["GHE constructor/simulate/compute_g_functions (synthetic evaluator)", "calc_g_func_for_multiple_lengths",
           "RowWise field generator (grid stub) for ROWWISE runs"]


def _chunks(prop, seed, total, size, **extra):
    jobs = []
    start = 0
    while start < total:
        c = min(size, total - start)
        j = {"prop": prop, "seed": seed, "start": start, "count": c}
        j.update(extra)
        jobs.append(j)
        start += c
    return jobs


def _merge(batches):
    extra = collections.Counter()
    sets = collections.defaultdict(set)
    n = 0
    digests = set()
    nontrivial = set()
    samples = []
    per_engine = {}
    for part, b in batches:
        extra.update(b.extra)
        for k, v in b.sets.items():
            sets[k].update(v)
        n += b.n
        digests |= {(b.engine, d) for d in b.digests}
        nontrivial |= {(b.engine, d) for d in b.nontrivial}
        samples.extend(b.samples[:4])
        per_engine[b.engine] = {"runs": b.n, "wall_s": round(getattr(b, "wall", 0.0), 1),
                                "runs_per_hour": int(b.n / max(getattr(b, "wall", 1e-9), 1e-9) * 3600),
                                "distinct_histories": len(b.digests), "statuses": dict(b.counters)}
    return extra, sets, n, digests, nontrivial, samples, per_engine


def _generic_coverage(rule, real, stub, extra_fn=None):
    def cov(batches, tier):
        extra, sets, n, digests, nontrivial, samples, per_engine = _merge(batches)
        c = {
            "evaluations": n,
            "distinct_nontrivial": len(nontrivial),
            "rule": rule,
            "samples": samples[:6] or ["<no run completed>"],
            "distinct_histories": len(digests),
            "engines": per_engine,
            "counters": dict(sorted(extra.items())),
            "fault_kinds_fired": {k.split(":", 1)[1]: v for k, v in sorted(extra.items()) if k.startswith("fault:")},
            "probes": {k.split(":", 1)[1]: v for k, v in sorted(extra.items()) if k.startswith("probe:")},
            "distinct": {k: len(v) for k, v in sets.items()},
            "components_real": real,
            "components_stubbed": stub,
            "exhaustive": False,
        }
        if "list_len" in sets:
            c["candidate_list_lengths_reached"] = sorted(sets["list_len"])[:80]
        if extra_fn:
            extra_fn(c, extra, sets)
        return c

    return cov


E3_RULE = ("seeded plans (VERIF_SEED -> sha256 -> PRNG): design method, lot / spacing window, height window, borehole cap, "
           "unmet policy, flow spec, evaluator mode (monotone / adversarial sign pattern / faulty = ValueError at k-th "
           "evaluation) and feasibility threshold; one plan = one find_design against the stub evaluator.  A run is "
           "non-trivial when the search queried the evaluator at least 3 times; distinct = distinct SHA-256 of the "
           "recorded event log (every query, answer, flow value and the outcome).")


def spec_c02(tier):
    total = 60_000 if tier == "quick" else 3_000_000
    return {
        "level": "exploration",
        "parts": [{"engine": "E3", "jobs": lambda seed: _chunks("C02", seed, total, 500), "wall_cap": 600.0}],
        "coverage": _generic_coverage(E3_RULE, REAL_E3, STUB_E3),
        "assumptions": [
            "the evaluator is a synthetic stand-in; policy assertions are made from the recorded answers, never from the "
            "stub's hidden threshold",
            "lots are generated so that every side admits an integer row count n>=3 with b_min <= side/(n-1) <= b_max "
            "(narrower lots make the generators yield empty lists by design); empty candidate lists are skipped as "
            "degenerate input",
            "exact-zero excess is never produced by the stub (sign(0) divides by zero; excluded as degenerate)",
        ],
    }


def spec_c05(tier):
    total = 60_000 if tier == "quick" else 3_000_000
    return {
        "level": "exploration",
        "parts": [{"engine": "E3", "jobs": lambda seed: _chunks("C05", seed, total, 500), "wall_cap": 600.0}],
        "coverage": _generic_coverage(E3_RULE + "  List lengths and threshold positions are a measured count of a seeded "
                                      "search, not the exhaustive enumeration the property's quantifier text mentions.",
                                      REAL_E3, STUB_E3),
        "assumptions": [
            "root clause is evaluated on the stub's own excess law at the returned height",
            "predecessor clause only for near-square / rectangle / bi-rectangle under a monotone evaluator and only "
            "when the selected candidate itself was recorded feasible (i.e. not an unmet-but-continued pick)",
        ],
    }


def spec_c20(tier):
    total = 40_000 if tier == "quick" else 1_500_000
    return {
        "level": "exploration",
        "parts": [{"engine": "E3", "jobs": lambda seed: _chunks("C20", seed, total, 500), "wall_cap": 600.0}],
        "coverage": _generic_coverage(E3_RULE, REAL_E3, STUB_E3),
        "assumptions": ["E3 checks the flow values the search classes hand to the evaluator and to the g-function "
                        "calculation; what BaseGHE.__init__ recomputes from them is checked in E1 (real physics)"],
    }


SPECS = {"C02": spec_c02, "C05": spec_c05, "C20": spec_c20}
