"""E2 — CLI / storage simulator.

One *job* = one base configuration (written by the tool's own write_input_file through the shim) and a list
of simulated invocations of the command line against it.  Each invocation: argv, stored-input fault, output
I/O fault plan.  Real: click command, _run_manager_from_cli_worker, validate.py, write_idf, OutputManager;
the design search is real on its first use for a given input text and replayed from a per-job memo afterwards
(the output stage only reads the search object).  The file system is the shim; exit is the mapped status.
"""
from __future__ import annotations

import contextlib
import copy
import errno
import io
import json
import os
import random
import subprocess
import sys
from pathlib import Path

from . import gen, seams
from .kernel import EventLog, Violation, derive_rng, digest, result_ok, result_violation

OUTPUT_FILES = ["SimulationSummary.txt", "TimeDependentValues.csv", "BoreFieldData.csv", "Loadings.csv", "Gfunction.csv",
                "SimulationSummary.json"]
SECTIONS = ["fluid", "grout", "soil", "pipe", "borehole", "simulation", "geometric_constraints", "design", "loads"]
CASE_FIELDS = [("geometric_constraints", "method"), ("pipe", "arrangement"), ("fluid", "fluid_name"), ("design", "flow_type"),
               ("simulation", "timestep")]


# ------------------------------------------------------------------------------------------ reference validator
_SCHEMAS = {}


def _schema(name):
    if name not in _SCHEMAS:
        import ghedesigner

        p = Path(ghedesigner.__file__).parent / "schemas" / name
        _SCHEMAS[name] = json.loads(p.read_text())
    return _SCHEMAS[name]


GEOM_SCHEMAS = {
    "BIRECTANGLE": "geometric_bi_rectangle.schema.json",
    "BIRECTANGLECONSTRAINED": "geometric_bi_rectangle_constrained.schema.json",
    "BIZONEDRECTANGLE": "geometric_bi_zoned_rectangle.schema.json",
    "NEARSQUARE": "geometric_near_square.schema.json",
    "RECTANGLE": "geometric_rectangle.schema.json",
    "ROWWISE": "geometric_rowwise.schema.json",
}
PIPE_SCHEMAS = {
    "SINGLEUTUBE": "pipe_single_double_u_tube.schema.json",
    "DOUBLEUTUBESERIES": "pipe_single_double_u_tube.schema.json",
    "DOUBLEUTUBEPARALLEL": "pipe_single_double_u_tube.schema.json",
    "COAXIAL": "pipe_coaxial.schema.json",
}


def ref_validate(text: str):
    """('unreadable'|'invalid'|'valid', reason).  The tool's schema files are the specification; what is under
    test is validate.py's dispatch, counting and case handling and the CLI plumbing around it."""
    import jsonschema

    try:
        inst = json.loads(text)
    except Exception as e:  # noqa: BLE001
        return "unreadable", f"json: {e}"
    if not isinstance(inst, dict):
        return "invalid", "top level is not an object"

    def ok(schema_name, obj):
        try:
            jsonschema.validate(instance=obj, schema=_schema(schema_name))
            return True
        except jsonschema.ValidationError:
            return False

    bad = []
    if not ok("file_structure.schema.json", inst):
        bad.append("file_structure")
    inst = copy.deepcopy(inst)

    def up(sec, key):
        s = inst.get(sec)
        if isinstance(s, dict) and isinstance(s.get(key), str):
            s[key] = s[key].upper()

    for sec, key in CASE_FIELDS:
        up(sec, key)
    simple = {"fluid": "fluid.schema.json", "grout": "grout.schema.json", "soil": "soil.schema.json",
              "borehole": "borehole.schema.json", "simulation": "simulation.schema.json", "design": "design.schema.json",
              "loads": "loads.schema.json"}
    for sec, sch in simple.items():
        if sec not in inst or not ok(sch, inst[sec]):
            bad.append(sec)
    pipe = inst.get("pipe")
    arr = pipe.get("arrangement") if isinstance(pipe, dict) else None
    if not isinstance(arr, str) or arr not in PIPE_SCHEMAS or not ok(PIPE_SCHEMAS[arr], pipe):
        bad.append("pipe")
    geo = inst.get("geometric_constraints")
    meth = geo.get("method") if isinstance(geo, dict) else None
    if not isinstance(meth, str) or meth not in GEOM_SCHEMAS or not ok(GEOM_SCHEMAS[meth], geo):
        bad.append("geometric_constraints")
    return ("invalid", ",".join(bad)) if bad else ("valid", "")


# ------------------------------------------------------------------------------------------ stored-input faults
def _section_keys(inst, sec):
    s = inst.get(sec)
    return sorted(s.keys()) if isinstance(s, dict) else []


def corruption_catalogue(inst: dict):
    """Every (section, key) x corruption kind for this instance — the enumerated fault matrix of C18."""
    cat = []
    for sec in SECTIONS:
        cat.append(("section_scalar", sec, None))
        cat.append(("section_delete", sec, None))
        for key in _section_keys(inst, sec):
            cat.append(("delete_key", sec, key))
            cat.append(("wrong_type", sec, key))
            v = inst[sec][key]
            if isinstance(v, (int, float)) and not isinstance(v, bool):
                cat.append(("out_of_range", sec, key))
            if isinstance(v, str):
                cat.append(("unknown_enum", sec, key))
    # optional members of the schemas that a written base file does not carry
    for sec, key in (("loads", "heat_pump_loads"), ("simulation", "start_month"), ("simulation", "timestep"),
                     ("design", "max_boreholes"), ("design", "continue_if_design_unmet")):
        if isinstance(inst.get(sec), dict) and key not in inst[sec]:
            cat.append(("optional_invalid", sec, key))
    cat.append(("loads_short", "loads", "ground_loads"))
    cat.append(("loads_long", "loads", "ground_loads"))
    cat.append(("loads_nonnumeric", "loads", "ground_loads"))
    cat.append(("delete_key", None, "version"))
    cat.append(("wrong_type", None, "version"))
    return cat


def apply_corruption(inst: dict, c, rng: random.Random) -> dict:
    kind, sec, key = c
    q = copy.deepcopy(inst)
    if kind == "section_scalar":
        q[sec] = rng.choice([1, "x", None, []])
    elif kind == "section_delete":
        q.pop(sec, None)
    elif kind == "delete_key":
        (q if sec is None else q[sec]).pop(key, None)
    elif kind == "wrong_type":
        tgt = q if sec is None else q[sec]
        v = tgt[key]
        if isinstance(v, bool):
            tgt[key] = rng.choice(["yes", 1.5, None])
        elif isinstance(v, (int, float)):
            tgt[key] = rng.choice([str(v), None, [v], {"v": v}, True])
        elif isinstance(v, str):
            tgt[key] = rng.choice([7, None, [v], 1.5])
        elif isinstance(v, list):
            tgt[key] = rng.choice([3, "list", None, {"a": 1}])
        else:
            tgt[key] = 0
    elif kind == "out_of_range":
        q[sec][key] = rng.choice([-1.0, -1e9, -0.001, 1e12, 90.001, -90.001, 60.5, 0, 0.5])
    elif kind == "unknown_enum":
        q[sec][key] = rng.choice(["NOPE", "", "WATER ", "water2", "SINGLE_U_TUBE", "BOREHOLES", "hybrid!"])
    elif kind == "optional_invalid":
        q[sec][key] = {"heat_pump_loads": rng.choice([[1.0] * 10, "none", [None] * 8760, [0.0] * 8761]),
                       "start_month": rng.choice(["SMARCH", 3, None]), "timestep": rng.choice(["DAILY", 1, ["HYBRID"]]),
                       "max_boreholes": rng.choice(["ten", None, [10]]),
                       "continue_if_design_unmet": rng.choice(["yes", 1, None])}[key]
    elif kind == "loads_short":
        q["loads"]["ground_loads"] = q["loads"]["ground_loads"][:8759]
    elif kind == "loads_long":
        q["loads"]["ground_loads"] = q["loads"]["ground_loads"] + [0.0]
    elif kind == "loads_nonnumeric":
        ld = list(q["loads"]["ground_loads"])
        ld[rng.randrange(8760)] = rng.choice(["1.0", None, [1]])
        q["loads"]["ground_loads"] = ld
    return q


def validity_preserving_edit(inst: dict, rng: random.Random) -> tuple:
    q = copy.deepcopy(inst)
    kind = rng.choice(["case", "case", "extra_key", "version", "timestep", "optional_add", "optional_add_loads", "start_month"])
    if kind == "optional_add_loads":
        q["loads"]["heat_pump_loads"] = [0.0] * 8760
        return q, "optional:heat_pump_loads"
    if kind == "start_month":
        q["simulation"]["start_month"] = rng.choice(["JANUARY", "MARCH", "DECEMBER"])
        return q, "optional:start_month"
    if kind == "case":
        sec, key = rng.choice(CASE_FIELDS[:4])
        s = q[sec][key]
        q[sec][key] = rng.choice([s.lower(), s.capitalize(), "".join(ch.lower() if i % 2 else ch for i, ch in enumerate(s))])
        return q, f"case:{sec}.{key}"
    if kind == "extra_key":
        sec = rng.choice(SECTIONS)
        q[sec]["x_unknown_key"] = rng.choice([1, "a", None])
        return q, f"extra_key:{sec}"
    if kind == "version":
        q["version"] = rng.choice(["0.1", "9.9", ""])
        return q, "version"
    if kind == "timestep":
        q["simulation"]["timestep"] = rng.choice(["HYBRID", "hybrid", "Hourly", "HOURLY"])
        return q, "timestep"
    q["design"]["continue_if_design_unmet"] = rng.choice([True, False])
    return q, "optional_add"


def byte_damage(text: str, rng: random.Random) -> tuple:
    b = text.encode()
    kind = rng.choice(["truncate", "truncate", "flip", "empty", "bad_utf8", "truncate_ws"])
    if kind == "truncate":
        k = rng.randrange(1, len(b))
        return b[:k], f"truncate@{k * 100 // len(b)}%"
    if kind == "truncate_ws":
        # cut inside the trailing part so that the JSON may still be complete only if nothing is lost
        k = len(b) - rng.randrange(1, 40)
        return b[:k], "truncate_tail"
    if kind == "flip":
        k = rng.randrange(len(b))
        return b[:k] + bytes([b[k] ^ (1 << rng.randrange(7))]) + b[k + 1:], "flip"
    if kind == "empty":
        return b"", "empty"
    k = rng.randrange(len(b))
    return b[:k] + b"\xff\xfe" + b[k:], "bad_utf8"


# ------------------------------------------------------------------------------------------ design memo for the output stage
class DesignMemo:
    """find_design is real on the first use of an input text; later invocations with the same text reuse the search
    object (the output stage reads it, never writes).  Search failures are replayed as the same exception."""

    def __init__(self):
        self.store = {}
        self.real_calls = 0
        self.current_key = None
        self._orig = None

    def install(self):
        import ghedesigner.manager as gm

        memo = self
        self._orig = gm.GHEManager.find_design

        def find_design(mgr, *a, **kw):
            key = memo.current_key
            if key is None:
                return memo._orig(mgr, *a, **kw)
            if key in memo.store:
                kind, payload = memo.store[key]
                if kind == "exc":
                    raise type(payload)(*payload.args)
                mgr._search, mgr._search_time = payload
                return 0
            memo.real_calls += 1
            try:
                rv = memo._orig(mgr, *a, **kw)
            except Exception as e:  # noqa: BLE001
                memo.store[key] = ("exc", e)
                raise
            memo.store[key] = ("ok", (mgr._search, mgr._search_time))
            return rv

        gm.GHEManager.find_design = find_design

    def uninstall(self):
        import ghedesigner.manager as gm

        if self._orig is not None:
            gm.GHEManager.find_design = self._orig


# ------------------------------------------------------------------------------------------ plan generation
def draw_job(seed: int, prop: str, index: int, tier: str, n_inv: int, design_fraction: float, methods=None) -> dict:
    rng = derive_rng(seed, "E2", prop, index)
    # inexpensive designs: small lots, short horizons; the CLI statement does not depend on the physics
    cfg = gen.draw_cfg(rng, methods=methods or ["NEARSQUARE", "RECTANGLE", "BIRECTANGLE", "NEARSQUARE", "RECTANGLE",
                                                "BIZONEDRECTANGLE", "BIRECTANGLECONSTRAINED", "ROWWISE"],
                       target=rng.choices(["bracket", "huge", "tiny"], [0.7, 0.2, 0.1])[0], months=rng.choice([12, 12, 24]))
    if cfg["geometry"]["method"] in ("BIRECTANGLECONSTRAINED", "ROWWISE", "BIZONEDRECTANGLE"):
        # these are only used for runs that stop at validation (their design takes 10+ s)
        design_fraction = 0.0
    invs = []
    for j in range(n_inv):
        invs.append(draw_invocation(rng, design_fraction))
    return {"engine": "E2", "property": prop, "cfg": cfg, "invocations": invs, "index": index,
            # half of the jobs keep ONE input path for all their invocations (a batch driver that edits a file in place and
            # re-runs it): whatever the tool remembers about a path must not outlive the content
            "shared_input_path": rng.random() < 0.5,
            "clock": {"start": rng.randrange(0, 10 ** 8), "step": rng.choice([0.25, 1.0, 3600.0])}}


def draw_invocation(rng: random.Random, design_fraction: float) -> dict:
    inv = {"flags": "none", "input_fault": None, "io_faults": [], "seed": rng.randrange(1 << 30)}
    u = rng.random()
    if u < design_fraction:
        # reaches the output stage
        mode = rng.choices(["clean", "io_fault", "convert_idf", "outdir_is_file", "valid_edit", "stale_outdir"],
                           [0.15, 0.5, 0.1, 0.05, 0.1, 0.1])[0]
        inv["kind"] = "design"
        if mode == "io_fault":
            kind = rng.choice(["mkdir", "open_w", "open_w", "write", "write", "write", "close", "close"])
            nth = {"mkdir": rng.randint(1, 2), "open_w": rng.randint(1, 6), "close": rng.randint(1, 6),
                   "write": rng.choice([1, 2, rng.randint(2, 400), rng.randint(2, 9200), rng.randint(8700, 9300)])}[kind]
            inv["io_faults"] = [{"kind": kind, "nth": nth, "errno": rng.choice([errno.ENOSPC, errno.EIO, errno.EACCES]),
                                 "partial": rng.random() < 0.6, "frac": round(rng.random(), 3),
                                 "creates_empty": rng.random() < 0.5}]
            if kind == "write" and rng.random() < 0.5:
                # aim at one particular file: its n-th write (SimulationSummary.* are written with a single write)
                target = rng.choice(OUTPUT_FILES)
                inv["io_faults"][0]["file"] = target
                inv["io_faults"][0]["nth"] = 1 if target.startswith("SimulationSummary") else rng.choice(
                    [1, 2, rng.randint(1, 12), rng.randint(1, 8761) if target == "Loadings.csv" else rng.randint(1, 60)])
        elif mode == "convert_idf":
            inv["flags"] = "convert_idf_after"
            if rng.random() < 0.5:
                inv["io_faults"] = [{"kind": rng.choice(["open_w", "write", "close"]), "nth": rng.randint(1, 7) + 6,
                                     "errno": errno.ENOSPC, "partial": True, "frac": 0.5, "phase": "convert"}]
        elif mode == "outdir_is_file":
            inv["flags"] = "outdir_is_file"
        elif mode == "stale_outdir":
            # the output directory already holds the six files of an earlier, different run (optionally plus an I/O fault)
            inv["stale_outdir"] = True
            if rng.random() < 0.5:
                kind = rng.choice(["open_w", "write", "close"])
                inv["io_faults"] = [{"kind": kind, "nth": rng.randint(1, 6) if kind != "write" else rng.choice([1, 2, rng.randint(3, 9000)]),
                                     "errno": errno.ENOSPC, "partial": True, "frac": round(rng.random(), 3)}]
        elif mode == "valid_edit":
            inv["input_fault"] = {"class": "valid_edit"}
        return inv
    inv["kind"] = "validate"
    inv["flags"] = rng.choices(["validate_only", "none", "convert_xyz", "no_outdir", "convert_idf_missing"],
                               [0.45, 0.35, 0.08, 0.08, 0.04])[0]
    c = rng.choices(["corrupt", "valid_edit", "bytes", "none", "swap_between_reads"], [0.6, 0.12, 0.15, 0.08, 0.05])[0]
    if c != "none":
        inv["input_fault"] = {"class": c}
    if rng.random() < 0.06:
        # the tool's first or second read of the input file fails (EIO / EACCES)
        inv["io_faults"] = [{"kind": "open_r", "nth": rng.choice([1, 2]), "errno": rng.choice([errno.EIO, errno.EACCES])}]
    if inv["flags"] in ("none",) and c in ("none", "valid_edit"):
        # would run a design: keep it at validation unless design runs are wanted
        inv["flags"] = "validate_only"
    return inv


# ------------------------------------------------------------------------------------------ execution of one job
def _complete_outputs(outdir: Path, n_loads=8760):
    """Independent content inspection of the six result files.  Returns list of problems."""
    import csv

    probs = []
    for name in OUTPUT_FILES:
        p = outdir / name
        if not p.exists():
            probs.append(f"missing:{name}")
            continue
        if p.stat().st_size == 0:
            probs.append(f"empty:{name}")
    if probs:
        return probs
    try:
        summ = json.loads((outdir / "SimulationSummary.json").read_text())
        nbh = summ["ghe_system"]["number_of_boreholes"]
    except Exception as e:  # noqa: BLE001
        return [f"torn:SimulationSummary.json ({type(e).__name__})"]
    if summ.get("stale"):
        probs.append("stale:SimulationSummary.json")
    for name in OUTPUT_FILES:
        if not name.endswith(".json") and (outdir / name).read_text()[:5].lower().startswith("stale"):
            probs.append(f"stale:{name}")
    if probs:
        return probs
    rows = list(csv.reader((outdir / "Loadings.csv").open(newline="")))
    if len(rows) != n_loads + 1 or any(len(r) != 5 for r in rows):
        probs.append(f"torn:Loadings.csv rows={len(rows)}")
    rows = list(csv.reader((outdir / "BoreFieldData.csv").open(newline="")))
    if len(rows) != nbh + 1 or any(len(r) != 2 for r in rows):
        probs.append(f"torn:BoreFieldData.csv rows={len(rows)} nbh={nbh}")
    rows = list(csv.reader((outdir / "Gfunction.csv").open(newline="")))
    if len(rows) < 28 or any(len(r) != 3 for r in rows):
        probs.append(f"torn:Gfunction.csv rows={len(rows)}")
    rows = list(csv.reader((outdir / "TimeDependentValues.csv").open(newline="")))
    if len(rows) < 10 or any(len(r) != 6 for r in rows):
        probs.append(f"torn:TimeDependentValues.csv rows={len(rows)}")
    txt = (outdir / "SimulationSummary.txt").read_text()
    if "Monthly Temperature Summary" not in txt or not txt.rstrip().endswith("*" * 20):
        probs.append("torn:SimulationSummary.txt")
    return probs


def _idf_complete(p: Path):
    if not p.exists():
        return ["missing:out.idf"]
    t = p.read_text()
    if "GroundHeatExchanger:ResponseFactors" not in t or not t.rstrip().endswith(tuple("0123456789")) and ";" not in t[-80:]:
        return ["torn:out.idf"]
    if t.count(";") != 4:
        return [f"torn:out.idf objects={t.count(';')}"]
    return []


def execute_job(job: dict, fidelity_every: int = 0):
    """Runs all invocations of a job.  Returns list of per-invocation observation dicts."""
    import ghedesigner.manager  # noqa: F401

    cfg = job["cfg"]
    prop = job["property"]
    observations = []
    memo = DesignMemo()
    gmemo = seams.GFuncMemo()
    clock = seams.VirtualClock(job["clock"]["start"], job["clock"]["step"])
    with seams.scratch_dir("ghe-e2") as root, seams.clock_installed(clock):
        gmemo.install()
        memo.install()
        try:
            rootp = Path(root)
            base_path = rootp / "base.json"
            with contextlib.redirect_stdout(io.StringIO()), contextlib.redirect_stderr(io.StringIO()):
                mgr = gen.build_manager(cfg)
                mgr.write_input_file(base_path)
            base_text = base_path.read_text()
            base_inst = json.loads(base_text)
            catalogue = corruption_catalogue(base_inst)
            for j, inv in enumerate(job["invocations"]):
                observations.append(_one_invocation(job, j, inv, rootp, base_text, base_inst, catalogue, memo, prop,
                                                    fidelity=bool(fidelity_every) and (j % fidelity_every == 0)))
        finally:
            memo.uninstall()
            gmemo.uninstall()
    return observations, {"design_real_calls": memo.real_calls, "gfunc_hits": gmemo.hits, "gfunc_misses": gmemo.misses}


def _one_invocation(job, j, inv, rootp: Path, base_text, base_inst, catalogue, memo, prop, fidelity=False):
    rng = random.Random(inv["seed"])
    rundir = rootp / f"inv{j}"
    os.mkdir(rundir)
    in_path = (rootp / "input.json") if job.get("shared_input_path") else (rundir / "input.json")
    fault_desc = "none"
    text = base_text
    raw = None
    swap = None
    fc = (inv.get("input_fault") or {}).get("class")
    if fc == "corrupt":
        if inv["input_fault"].get("pick") is not None:
            c = tuple(inv["input_fault"]["pick"])
        else:
            c = catalogue[rng.randrange(len(catalogue))]
        text = json.dumps(apply_corruption(base_inst, c, rng), sort_keys=True, indent=2)
        fault_desc = f"corrupt:{c[0]}:{c[1]}.{c[2]}"
    elif fc == "valid_edit":
        q, what = validity_preserving_edit(base_inst, rng)
        text = json.dumps(q, sort_keys=True, indent=2)
        fault_desc = f"valid_edit:{what}"
    elif fc == "bytes":
        raw, what = byte_damage(base_text, rng)
        fault_desc = f"bytes:{what}"
    elif fc == "swap_between_reads":
        # the validator reads a valid file, the loader then reads something else (torn / replaced file)
        # (only unreadable replacements: a schema-invalid-but-loadable replacement would make the tool design with
        # garbage, about which the property says nothing)
        swap = b"" if rng.random() < 0.3 else base_text.encode()[: rng.randrange(1, len(base_text) - 2)]
        fault_desc = "swap_between_reads"
    if raw is None:
        raw = text.encode()
    in_path.write_bytes(raw)
    try:
        verdict, why = ref_validate(raw.decode())
    except UnicodeDecodeError:
        verdict, why = "unreadable", "utf-8"
    outdir = rundir / "out"
    flags = inv["flags"]
    if fc == "corrupt" and verdict == "valid" and flags in ("none", "convert_idf_after", "outdir_is_file"):
        # a "corruption" that happens to stay schema-valid (e.g. max_height=1e12: no maximum in the schema) would make
        # the tool design with garbage for hours; such inputs are only taken to the validator
        flags = "validate_only"
    argv = [str(in_path)]
    expect_files = False
    if flags == "validate_only":
        argv = ["--validate-only", str(in_path)]
    elif flags == "convert_xyz":
        argv = ["--convert", "XYZ", str(in_path)]
    elif flags == "no_outdir":
        argv = [str(in_path)]
    elif flags == "convert_idf_missing":
        argv = ["--convert", "IDF", str(in_path)]  # input is not a summary file: conversion must fail
    elif flags == "outdir_is_file":
        outdir.write_text("I am a file")
        argv = [str(in_path), str(outdir)]
    else:
        argv = [str(in_path), str(outdir)]
        expect_files = True
        if inv.get("stale_outdir"):
            os.mkdir(outdir)
            for name in OUTPUT_FILES:
                if name.endswith(".json"):
                    (outdir / name).write_text(json.dumps({"ghe_system": {"number_of_boreholes": 987654}, "stale": True}))
                elif name.endswith(".txt"):
                    (outdir / name).write_text("STALE SUMMARY\nMonthly Temperature Summary\n" + "*" * 100 + "\n")
                else:
                    (outdir / name).write_text("stale,stale\n" * 9000)
    shim = seams.FileShim(str(rootp), [f for f in inv["io_faults"] if f.get("phase") != "convert"])
    if swap is not None:
        shim.read_hooks[os.path.relpath(str(in_path), str(rootp))] = lambda n, _s=swap: _s if n == 2 else None
    memo.current_key = digest(raw) if verdict == "valid" and swap is None else None
    if memo.current_key is None and verdict == "valid" and expect_files:
        memo.current_key = None
    with shim:
        res = seams.run_cli(argv)
    obs = {"j": j, "flags": flags, "fault": fault_desc, "verdict": verdict, "why": why, "status": res["status"],
           "exc": res["exc"], "io_fired": list(shim.fired), "argv": [a.replace(str(rundir), "<run>").replace(str(rootp), "<job>") for a in argv],
           "kind": inv["kind"], "stderr_tail": res["stderr"][-300:], "io_log_len": len(shim.log)}
    # direct verdict of the tool's validator (independent of the exit-status plumbing)
    if flags == "validate_only" or inv["kind"] == "validate":
        in_path.write_bytes(raw)
        try:
            from ghedesigner.validate import validate_input_file

            with contextlib.redirect_stdout(io.StringIO()), contextlib.redirect_stderr(io.StringIO()):
                rc = validate_input_file(in_path)
            obs["tool_verdict"] = "valid" if rc == 0 else "invalid"
        except Exception as e:  # noqa: BLE001
            obs["tool_verdict"] = f"raises:{type(e).__name__}"
    if expect_files or flags == "outdir_is_file":
        obs["out_problems"] = _complete_outputs(outdir) if outdir.is_dir() else ["missing:outdir"]
    if flags == "convert_idf_after" and res["status"] == 0 and not obs.get("out_problems"):
        shim2 = seams.FileShim(str(rootp), [dict(f, nth=f["nth"] - 6) for f in inv["io_faults"] if f.get("phase") == "convert"])
        with shim2:
            res2 = seams.run_cli(["--convert", "IDF", str(outdir / "SimulationSummary.json")])
        obs["convert"] = {"status": res2["status"], "exc": res2["exc"], "io_fired": list(shim2.fired),
                          "problems": _idf_complete(outdir / "out.idf")}
    if fidelity and not inv["io_faults"] and swap is None and not (expect_files and verdict == "valid"):
        in_path.write_bytes(raw)
        obs["real_status"] = real_process_status(argv)
    return obs


def real_process_status(argv):
    code = ("import sys, os\n"
            "r = os.environ.get('VERIF_REPO')\n"
            "if r: sys.path.insert(0, r)\n"
            "from ghedesigner.manager import run_manager_from_cli\n"
            "sys.argv = ['ghedesigner'] + sys.argv[1:]\n"
            "sys.exit(run_manager_from_cli())\n")
    p = subprocess.run([sys.executable, "-c", code] + argv, capture_output=True, text=True, timeout=600)
    return p.returncode


# ------------------------------------------------------------------------------------------ oracles
def oracle_c18(obs: dict):
    st = obs["status"]
    flags = obs["flags"]
    verdict = obs["verdict"]
    site = f"{flags}:{obs['fault'].split(':')[0]}:{verdict}"
    tv = obs.get("tool_verdict")
    if tv is not None:
        tool_accepts = tv == "valid"
        if tool_accepts != (verdict == "valid"):
            sec = obs["why"] if verdict != "valid" else obs["fault"]
            raise Violation("C18", "validation_verdict", f"validate_input_file says {tv}, schemas say {verdict} ({obs['why']}); "
                                                          f"fault={obs['fault']}", site=f"verdict:{verdict}:{sec.split(',')[0]}")
    if any(k == "open_r" for k, _, _ in obs["io_fired"]) and st == 0:
        raise Violation("C18", "exit0_despite_unreadable_input", f"reading the input failed ({obs['io_fired']}) but exit 0 "
                                                                 f"(flags={flags})", site=f"{flags}:open_r")
    if "real_status" in obs and (obs["real_status"] == 0) != (st == 0):
        raise Violation("C18", "HARNESS_fidelity", f"in-process status {st} vs real process {obs['real_status']}", site=site)
    if flags == "validate_only":
        if any(k == "open_r" for k, _, _ in obs["io_fired"]):
            return "validate_only:read_fault"
        if (st == 0) != (verdict == "valid"):
            raise Violation("C18", "validate_only_status", f"--validate-only exit {st} on {verdict} input ({obs['why']}; "
                                                           f"fault={obs['fault']})", site=site)
        return "validate_only:" + verdict
    if flags == "convert_xyz" or flags == "convert_idf_missing":
        if st == 0:
            raise Violation("C18", "exit0_unsupported_or_failed_convert", f"{' '.join(obs['argv'][:2])} exited 0", site=site)
        return flags
    if flags == "no_outdir":
        if st == 0:
            raise Violation("C18", "exit0_without_output_dir", f"no output directory given, exit 0 ({verdict} input)", site=site)
        return flags
    # design-style invocation
    if verdict != "valid" and st == 0:
        raise Violation("C18", "exit0_on_invalid_input", f"exit 0 on {verdict} input ({obs['why']}; fault={obs['fault']})",
                        site=site)
    probs = obs.get("out_problems")
    if st == 0 and probs:
        raise Violation("C18", "exit0_without_complete_outputs", f"exit 0 but {probs[:3]} (io faults fired: {obs['io_fired']}; "
                                                                 f"flags={flags})", site=f"{flags}:{probs[0].split(':')[0]}")
    if flags == "convert_idf_after" and "convert" in obs:
        c = obs["convert"]
        if c["status"] == 0 and c["problems"]:
            raise Violation("C18", "exit0_convert_without_idf", f"--convert IDF exit 0 but {c['problems']} (fired {c['io_fired']})",
                            site="convert_idf")
    if verdict == "valid" and not obs["io_fired"] and flags in ("none", "convert_idf_after") and obs["fault"] != "swap_between_reads":
        # the status must reflect the outcome: a complete result set written without any fault is a success.
        # (A valid input on which the tool fails *without* producing output may exit non-zero: the property has no
        # liveness clause; e.g. an unknown extra key makes a setter raise TypeError.)
        if st != 0 and probs == []:
            raise Violation("C18", "nonzero_with_complete_outputs", f"valid input, no fault, six complete files, but exit {st} "
                                                                    f"({obs['exc']})", site=site)
        if st != 0:
            return "design:failed_without_output"
        return "design:ok"
    return f"design:{'faulted' if obs['io_fired'] else verdict}:{'zero' if st == 0 else 'nonzero'}"


ORACLES = {"C18": oracle_c18}


def run_plan(job: dict) -> dict:
    """One job = one history: all invocations are executed; the first violating invocation decides the result."""
    prop = job["property"]
    fidelity_every = job.get("fidelity_every", 0)
    observations, stats = execute_job(job, fidelity_every)
    log = EventLog()
    count = {"invocations": len(observations), "design_real_calls": stats["design_real_calls"]}
    sets = {"fault_sites": set(), "io_fault_files": set(), "flags_verdict_status": set(), "invocation_digests": set()}
    viols = []
    tags = []
    for obs in observations:
        log.add("cli", [obs["argv"][:-1], obs["fault"], obs["flags"]], [obs["status"], obs.get("out_problems"), obs["io_fired"],
                                                                        obs.get("tool_verdict")])
        count[f"flags:{obs['flags']}"] = count.get(f"flags:{obs['flags']}", 0) + 1
        count[f"verdict:{obs['verdict']}"] = count.get(f"verdict:{obs['verdict']}", 0) + 1
        fk = obs["fault"].split(":")[0]
        if fk != "none":
            count[f"fault:input_{fk}"] = count.get(f"fault:input_{fk}", 0) + 1
        for kind, base, n in obs["io_fired"]:
            count[f"fault:io_{kind}"] = count.get(f"fault:io_{kind}", 0) + 1
            sets["io_fault_files"].add(f"{kind}:{base}")
        if "convert" in obs:
            for kind, base, n in obs["convert"]["io_fired"]:
                count[f"fault:io_{kind}"] = count.get(f"fault:io_{kind}", 0) + 1
                sets["io_fault_files"].add(f"{kind}:{base}")
        if "real_status" in obs:
            count["real_process_fidelity_runs"] = count.get("real_process_fidelity_runs", 0) + 1
        sets["fault_sites"].add(obs["fault"])
        sets["invocation_digests"].add(digest([job["index"], obs["flags"], obs["fault"], inv_seed(job, obs["j"]), obs["status"],
                                               obs.get("out_problems"), obs["io_fired"]])[:16])
        sets["flags_verdict_status"].add(f"{obs['flags']}:{obs['verdict']}:{0 if obs['status'] == 0 else 'nz'}")
        try:
            tags.append(ORACLES[prop](obs))
        except Violation as v:
            if v.vclass.startswith("HARNESS"):
                return {"status": "harness_error", "trace": f"{v.vclass}: {v.detail}"}
            d = v.as_dict()
            d["features"] = {"site": v.site, "flags": obs["flags"], "verdict": obs["verdict"]}
            d["invocation"] = obs["j"]
            if not any(x["vclass"] == d["vclass"] and x["features"] == d["features"] for x in viols):
                viols.append(d)
    for t in tags:
        count[f"tag:{t}"] = count.get(f"tag:{t}", 0) + 1
    info = {"digest": log.run_digest(), "count": count, "sets": {k: sorted(v) for k, v in sets.items()},
            "nontrivial": True, "cost": len(observations),
            "sample": {"geometry_method": job["cfg"]["geometry"]["method"], "pipe": job["cfg"]["pipe"]["arrangement"],
                       "invocations": [{k: o[k] for k in ("argv", "fault", "verdict", "status", "io_fired")} for o in
                                       observations[:6]]}}
    if not viols:
        return result_ok(**info)
    r = dict(info)
    r["status"] = "violation"
    r["violation"] = viols[0]
    r["more_violations"] = viols[1:]
    return r


def inv_seed(job, j):
    try:
        return job["invocations"][j]["seed"]
    except (IndexError, KeyError):
        return j


def make_plans(jobspec: dict) -> list:
    out = []
    for i in range(jobspec["start"], jobspec["start"] + jobspec["count"]):
        job = draw_job(jobspec["seed"], jobspec["prop"], i, jobspec.get("tier", "quick"), jobspec["n_inv"],
                       jobspec["design_fraction"], jobspec.get("methods"))
        job["fidelity_every"] = jobspec.get("fidelity_every", 0)
        if jobspec.get("enumerate"):
            job = enumerate_job(job)
        out.append(job)
    return out


def run_many(jobspec: dict) -> dict:
    outs = []
    for k, job in enumerate(make_plans(jobspec)):
        i = jobspec["start"] + k
        r = run_plan(job)
        r["index"] = i
        if r["status"] == "violation":
            r["plan"] = job
            r["jobspec"] = jobspec
        if i != jobspec["start"]:
            r.pop("sample", None)
        outs.append(r)
    return {"status": "ok", "results": outs}


def enumerate_job(job: dict) -> dict:
    """Thorough tier: replace the sampled corruptions by the *complete* (section, key) x kind matrix for this base
    configuration, under --validate-only and under a design-style invocation alternately."""
    with contextlib.redirect_stdout(io.StringIO()), contextlib.redirect_stderr(io.StringIO()):
        mgr = gen.build_manager(job["cfg"])
        with seams.scratch_dir("ghe-e2enum") as d:
            p = Path(d) / "b.json"
            mgr.write_input_file(p)
            inst = json.loads(p.read_text())
    rng = derive_rng(job["index"], "E2", "enum", 0)
    invs = []
    for k, c in enumerate(corruption_catalogue(inst)):
        invs.append({"flags": "validate_only" if k % 2 == 0 else "none", "kind": "validate",
                     "input_fault": {"class": "corrupt", "pick": list(c)}, "io_faults": [], "seed": rng.randrange(1 << 30)})
    job = dict(job)
    job["invocations"] = invs + job["invocations"]
    return job


# ------------------------------------------------------------------------------------------ minimisation
def minimise(job: dict, vclass: str, budget: int, hint=None):
    """Keep only the violating invocation if that reproduces the class; otherwise ddmin over invocations."""
    from .kernel import ddmin_list, vclasses

    def fails(invs):
        if not invs:
            return False
        q = dict(job)
        q["invocations"] = invs
        q["fidelity_every"] = 0
        q.pop("enumerated", None)
        try:
            r = run_plan(q)
        except Exception:  # noqa: BLE001
            return False
        return vclass in vclasses(r)

    invs = job["invocations"]
    if hint is not None and 0 <= hint < len(invs) and fails([invs[hint]]):
        invs = [invs[hint]]
    else:
        b = [min(budget, 25)]
        invs = ddmin_list(invs, fails, b)
    q = dict(job)
    q["invocations"] = invs
    q["fidelity_every"] = 0
    return q, len(job["invocations"]) - len(invs)
