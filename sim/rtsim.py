"""E2 (round-trip part) — API -> file -> validator -> CLI loader -> file, through the file-system seam.

Real: GHEManager setters and write_input_file, validate.py, _run_manager_from_cli_worker (JSON -> setter calls);
find_design / prepare_results / write_output_files of the *loaded* manager are replaced by recording no-ops so that
only the loading path runs and the constructed manager is captured; for a seeded subset the real design is run on
both managers.  One fault-like schedule: the same path is written twice (longer file first).
"""
from __future__ import annotations

import contextlib
import io
import json
import random
from pathlib import Path

from . import apisim, clisim, gen, seams
from .kernel import EventLog, Violation, derive_rng, digest


def draw_plan(rng: random.Random, prop: str = "C17", tier="quick", design_fraction=0.1) -> dict:
    methods = ["NEARSQUARE", "RECTANGLE", "BIRECTANGLE", "BIZONEDRECTANGLE", "BIRECTANGLECONSTRAINED", "ROWWISE", "ROWWISE"]
    cfg = gen.draw_cfg(rng, methods=methods)
    # optional members present or absent, independent of the method (the API accepts them everywhere)
    if rng.random() < 0.5:
        cfg["simulation"]["max_boreholes"] = rng.choice([None, rng.randint(2, 200)])
    cfg["simulation"]["continue_if_design_unmet"] = rng.random() < 0.5
    if rng.random() < 0.3:
        # arbitrary doubles rather than 4-significant-digit values
        cfg["soil"]["conductivity"] = rng.uniform(1.0, 4.0)
        cfg["grout"]["rho_cp"] = rng.uniform(3.0e6, 4.0e6)
        cfg["design"]["flow_rate"] = rng.uniform(0.1, 2.0)
        cfg["borehole"]["buried_depth"] = rng.uniform(0.5, 5.0)
        if "min_rotation" in cfg["geometry"]:
            cfg["geometry"]["min_rotation"] = rng.uniform(-90.0, -1.0)
            cfg["geometry"]["max_rotation"] = rng.uniform(1.0, 90.0)
    if cfg["geometry"]["method"] == "ROWWISE" and rng.random() < 0.35:
        # the schema's bounds themselves (no design is run for RowWise here)
        if rng.random() < 0.7:
            cfg["geometry"]["max_rotation"] = 90.0
        if rng.random() < 0.5:
            cfg["geometry"]["min_rotation"] = -90.0
    if rng.random() < 0.3:
        cfg["fluid"]["temperature"] = rng.choice([2.0, 5.0, 10.0, 30.0])
    if rng.random() < 0.2:
        cfg["fluid"] = {"fluid_name": rng.choice(["WATER", "PROPYLENEGLYCOL"]), "concentration_percent": 0.0 if rng.random() < 0.5 else 20.0,
                        "temperature": cfg["fluid"]["temperature"]}
        if cfg["fluid"]["fluid_name"] == "WATER":
            cfg["fluid"]["concentration_percent"] = 0.0
    order = list(gen.SETTERS)
    rng.shuffle(order)
    cheap = cfg["geometry"]["method"] in ("NEARSQUARE", "RECTANGLE") and cfg["simulation"]["num_months"] <= 36
    decoys = [n for n in gen.SETTERS if rng.random() < 0.2]
    return {"engine": "E2R", "property": prop, "cfg": cfg, "order": order, "double_write": rng.random() < 0.3,
            "decoys": decoys, "cfg_decoy2": gen.draw_cfg(rng) if decoys else None, "pre_broken": rng.random() < 0.25,
            "design": cheap and rng.random() < design_fraction * 3.5,
            "cfg_decoy": gen.draw_cfg(rng, methods=["BIRECTANGLECONSTRAINED"]) if rng.random() < 0.5 else None}


class Capture:
    """Replaces the post-loading stages of the CLI worker and captures the manager it built."""

    def __init__(self):
        self.mgr = None

    @contextlib.contextmanager
    def installed(self):
        import ghedesigner.manager as gm

        cap = self
        saved = (gm.GHEManager.find_design, gm.GHEManager.prepare_results, gm.GHEManager.write_output_files)

        def find_design(mgr, *a, **kw):
            cap.mgr = mgr
            return 0

        gm.GHEManager.find_design = find_design
        gm.GHEManager.prepare_results = lambda mgr, *a, **k: None
        gm.GHEManager.write_output_files = lambda mgr, *a, **k: None
        try:
            yield self
        finally:
            gm.GHEManager.find_design, gm.GHEManager.prepare_results, gm.GHEManager.write_output_files = saved


def _file_vs_request(inst: dict, cfg: dict) -> list:
    """Differences between the written file and the configuration given to the API (floats at 1e-9: RowWise angles go
    degrees -> radians -> degrees)."""
    from .kernel import close

    out = []

    def cmp(path, got, want):
        ok = close(got, want, 1e-9, 1e-9)[0] if not isinstance(want, str) else str(got).upper() == want.upper()
        if not ok:
            out.append(f"{path} file={got!r} request={want!r}")

    for key in ("fluid_name", "concentration_percent", "temperature"):
        cmp(f"fluid.{key}", inst["fluid"].get(key), cfg["fluid"][key])
    for sec in ("grout", "soil"):
        for key, v in cfg[sec].items():
            cmp(f"{sec}.{key}", inst[sec].get(key), v)
    cmp("borehole.buried_depth", inst["borehole"].get("buried_depth"), cfg["borehole"]["buried_depth"])
    cmp("borehole.diameter", inst["borehole"].get("diameter"), cfg["borehole"]["diameter"])
    sim = cfg["simulation"]
    cmp("simulation.num_months", inst["simulation"].get("num_months"), sim["num_months"])
    d = inst["design"]
    cmp("design.flow_rate", d.get("flow_rate"), cfg["design"]["flow_rate"])
    cmp("design.flow_type", d.get("flow_type"), cfg["design"]["flow_type"])
    cmp("design.max_eft", d.get("max_eft"), sim["max_eft"])
    cmp("design.min_eft", d.get("min_eft"), sim["min_eft"])
    cmp("design.max_boreholes", d.get("max_boreholes"), sim["max_boreholes"])
    cmp("design.continue_if_design_unmet", bool(d.get("continue_if_design_unmet", False)), bool(sim["continue_if_design_unmet"]))
    g = inst["geometric_constraints"]
    cmp("geometric_constraints.max_height", g.get("max_height"), sim["max_height"])
    cmp("geometric_constraints.min_height", g.get("min_height"), sim["min_height"])
    for key, v in cfg["geometry"].items():
        if key.startswith("_"):
            continue
        if key == "perimeter_spacing_ratio" and v is None:
            if g.get(key) is not None:
                out.append(f"geometric_constraints.{key} file={g.get(key)!r} request=None")
            continue
        want = v
        got = g.get(key)
        if key in ("property_boundary", "no_go_boundaries") and cfg["geometry"]["method"] == "BIRECTANGLECONSTRAINED":
            # the API wraps a single outline into a list of outlines
            if want and isinstance(want[0][0], (int, float)):
                want = [want]
        cmp(f"geometric_constraints.{key}", got, want)
    p = cfg["pipe"]
    for key, v in p.items():
        cmp(f"pipe.{key}", inst["pipe"].get(key), v)
    return out


def components(mgr) -> dict:
    return {"fluid": mgr._fluid.to_input(), "grout": mgr._grout.to_input(), "soil": mgr._soil.to_input(),
            "borehole": mgr._borehole.to_input(), "simulation": mgr._simulation_parameters.to_input(),
            "geometry": mgr._geometric_constraints.to_input(), "design": mgr._design.to_input(),
            "pipe_type": mgr.pipe_type.name, "pipe": [mgr._pipe.r_in, mgr._pipe.r_out, mgr._pipe.s, mgr._pipe.roughness, mgr._pipe.k,
                                                      mgr._pipe.rhoCp, mgr._pipe.pos],
            "sim_all": [mgr._simulation_parameters.max_EFT_allowable, mgr._simulation_parameters.min_EFT_allowable,
                        mgr._simulation_parameters.max_height, mgr._simulation_parameters.min_height,
                        mgr._simulation_parameters.max_boreholes, mgr._simulation_parameters.continue_if_design_unmet],
            "loads": digest([float(x) for x in mgr._ground_loads])}


def run_plan(plan: dict) -> dict:
    from ghedesigner.manager import _run_manager_from_cli_worker
    from ghedesigner.validate import validate_input_file

    cfg = plan["cfg"]
    log = EventLog()
    viols = []
    count = {}
    method = cfg["geometry"]["method"]
    variant = method + ("+perimeter" if cfg["geometry"].get("perimeter_spacing_ratio") is not None else
                        ("-perimeter" if method == "ROWWISE" else ""))
    feats = {"method": method, "variant": variant}

    def viol(vclass, detail, site=""):
        d = Violation("C17", vclass, detail, site or variant).as_dict()
        d["features"] = dict(feats, site=site or variant)
        if not any(x["vclass"] == vclass for x in viols):
            viols.append(d)

    def bump(k, n=1):
        count[k] = count.get(k, 0) + n

    bump(f"method:{variant}")
    bump(f"pipe:{cfg['pipe']['arrangement']}")
    bump(f"fluid:{cfg['fluid']['fluid_name']}")
    bump("cap:" + ("present" if cfg["simulation"]["max_boreholes"] is not None else "absent"))
    bump("continue:" + str(cfg["simulation"]["continue_if_design_unmet"]))
    with seams.scratch_dir("ghe-e2r") as root, apisim.Quiet():
        rootp = Path(root)
        shim = seams.FileShim(root, [])
        with shim:
            if plan.get("pre_broken"):
                # a structurally broken file is validated first in this process (its exception is caught by the caller)
                fb = rootp / "broken.json"
                fb.write_text(json.dumps({"version": "x", "fluid": {"concentration_percent": "a"}, "grout": {}, "pipe": {}}))
                try:
                    validate_input_file(fb)
                except Exception:  # noqa: BLE001
                    pass
                try:
                    _run_manager_from_cli_worker(fb, rootp / "out_broken")
                except Exception:  # noqa: BLE001
                    pass
                bump("fault:structurally_broken_file_validated_first")
            decoys = []
            for n in plan.get("decoys") or []:
                d2 = plan["cfg_decoy2"]
                if n == "pipe" and d2["pipe"]["arrangement"] != cfg["pipe"]["arrangement"]:
                    pass  # a decoy pipe of another arrangement is the interesting case: keep it
                decoys.append((n, d2))
            try:
                mgr1 = gen.build_manager(cfg, order=plan["order"], decoys=decoys)
            except Exception as e:  # noqa: BLE001
                # the property speaks about configurations the API accepts; a constructor that rejects the (seeded) lot
                # - e.g. a polygon on which the candidate generator finds no field - is not one of them
                bump(f"configuration_rejected_by_api:{type(e).__name__}")
                return {"status": "ok", "digest": digest([plan["order"], "rejected"]), "count": count, "nontrivial": False, "cost": 1,
                        "sets": {}}
            if decoys:
                bump("probe:manager_previously_configured_otherwise")
            f1 = rootp / "f1.json"
            if plan["double_write"] and plan.get("cfg_decoy"):
                try:
                    decoy = gen.build_manager(plan["cfg_decoy"])
                    decoy.write_input_file(f1)
                    bump("fault:overwrite_existing_longer_file")
                except Exception:  # noqa: BLE001  (the decoy lot may be one the API rejects; then there is nothing to overwrite)
                    pass
            mgr1.write_input_file(f1)
            t1 = f1.read_text()
            log.add("save", plan["order"], digest(t1))
            # 0. the file says what the API was given (a stale shared object would make file and reload agree with each other
            #    and both disagree with the request)
            try:
                inst = json.loads(t1)
                mism = _file_vs_request(inst, cfg)
            except Exception as e:  # noqa: BLE001
                mism = [f"unparsable file: {e}"]
            if mism:
                viol("written_file_differs_from_request", f"the written file does not carry the values given to the API: {mism[:4]}",
                     site=f"{variant}:{mism[0].split(' ')[0]}")
            # 1. schema-valid for the reference validator and for the tool's own
            verdict, why = clisim.ref_validate(t1)
            try:
                rc = validate_input_file(f1)
            except Exception as e:  # noqa: BLE001
                rc = f"raises {type(e).__name__}: {e}"
            log.add("validate", None, [verdict, why, rc])
            if verdict != "valid":
                viol("written_file_schema_invalid", f"the file written for {variant} fails the tool's schemas in section(s) {why}",
                     site=f"{variant}:{why}")
            if rc != 0:
                viol("written_file_rejected_by_validator", f"validate_input_file returns {rc} on the written {variant} file",
                     site=f"{variant}:{why}")
            # 2. load through the CLI path
            cap = Capture()
            with cap.installed():
                try:
                    wrc = _run_manager_from_cli_worker(f1, rootp / "out")
                except Exception as e:  # noqa: BLE001
                    wrc = f"raises {type(e).__name__}: {e}"
            mgr2 = cap.mgr
            log.add("load", None, [wrc, mgr2 is not None])
            if mgr2 is None:
                viol("written_file_not_loadable", f"CLI loading path returned {wrc} without building a manager ({variant})",
                     site=f"{variant}:load")
            else:
                f2 = rootp / "f2.json"
                mgr2.write_input_file(f2)
                t2 = f2.read_text()
                log.add("save2", None, digest(t2))
                if t2 != t1:
                    a, b = json.loads(t1), json.loads(t2)
                    diff = [k for k in a if a[k] != b.get(k)]
                    sub = []
                    for k in diff:
                        if isinstance(a[k], dict):
                            sub += [f"{k}.{kk}: {a[k].get(kk)!r} -> {b.get(k, {}).get(kk)!r}" for kk in a[k]
                                    if a[k].get(kk) != b.get(k, {}).get(kk) and kk != "ground_loads"]
                    viol("second_write_differs", f"writing the reloaded configuration changes {sub[:4] or diff}", site=variant)
                c1, c2 = components(mgr1), components(mgr2)
                if c1 != c2:
                    d = [k for k in c1 if c1[k] != c2[k]]
                    viol("reloaded_configuration_differs", f"components differ after reload: {d}: "
                                                           f"{[(c1[k], c2[k]) for k in d][:2]}", site=variant)
                bump("round_trips_completed")
                if plan["design"] and not viols:
                    gm = seams.GFuncMemo()
                    gm.install()
                    try:
                        o1 = apisim.do_find(mgr1)
                        o2 = apisim.do_find(mgr2)
                    finally:
                        gm.uninstall()
                    bump("designs_compared")
                    # writing the input file again *after* the search (which overwrote the shared borehole height and
                    # built search objects) must still produce the same file
                    f3 = rootp / "f3.json"
                    try:
                        mgr1.write_input_file(f3)
                        t3 = f3.read_text()
                    except Exception as e:  # noqa: BLE001
                        t3 = f"raises {type(e).__name__}: {e}"
                    log.add("save_after_find", None, digest(t3))
                    if t3 != t1:
                        viol("file_written_after_search_differs", "write_input_file after find_design differs from the file "
                                                                  "written before it", site=variant)
                    log.add("designs", None, [(o1.get("ok") or {}).get("nbh", o1.get("exc")), (o2.get("ok") or {}).get("nbh", o2.get("exc"))])
                    if ("ok" in o1) != ("ok" in o2) or o1.get("exc") != o2.get("exc"):
                        viol("reloaded_design_outcome_differs", f"{o1.get('exc', 'design')} vs {o2.get('exc', 'design')}", site=variant)
                    elif "ok" in o1:
                        a, b = o1["ok"], o2["ok"]
                        from .kernel import close

                        if a["nbh"] != b["nbh"] or not close(a["coords"], b["coords"], 0.0, 1e-9)[0] or abs(a["H"] - b["H"]) > 1e-6:
                            viol("reloaded_design_differs", f"{a['nbh']}@{a['H']} vs {b['nbh']}@{b['H']}", site=variant)
    info = {"digest": log.run_digest(), "count": count, "nontrivial": True, "cost": 1,
            "sets": {"variants": [f"{variant}:{cfg['pipe']['arrangement']}:{cfg['fluid']['fluid_name']}"]},
            "sample": {"variant": variant, "pipe": cfg["pipe"]["arrangement"], "fluid": cfg["fluid"], "order": plan["order"],
                       "geometry": cfg["geometry"], "simulation": cfg["simulation"], "event_log": log.events}}
    if not viols:
        info["status"] = "ok"
        return info
    info["status"] = "violation"
    info["violation"] = viols[0]
    info["more_violations"] = viols[1:]
    return info


def make_plans(jobspec: dict) -> list:
    return [draw_plan(derive_rng(jobspec["seed"], "E2R", jobspec["prop"], i), jobspec["prop"], jobspec.get("tier", "quick"),
                      jobspec.get("design_fraction", 0.1)) for i in range(jobspec["start"], jobspec["start"] + jobspec["count"])]


def run_many(jobspec: dict) -> dict:
    outs = []
    for k, plan in enumerate(make_plans(jobspec)):
        i = jobspec["start"] + k
        r = run_plan(plan)
        r["index"] = i
        if r["status"] == "violation":
            r["plan"] = plan
            r["jobspec"] = jobspec
        if i % 50:
            r.pop("sample", None)
        outs.append(r)
    return {"status": "ok", "results": outs}


def minimise(plan: dict, vclass: str, budget: int, hint=None):
    from .kernel import vclasses

    cur = dict(plan)
    steps = 0
    for simpl in ({"double_write": False, "cfg_decoy": None}, {"order": list(gen.SETTERS)}, {"design": False}):
        q = dict(cur)
        q.update(simpl)
        if q == cur:
            continue
        try:
            if vclass in vclasses(run_plan(q)):
                cur = q
                steps += 1
        except Exception:  # noqa: BLE001
            pass
    return cur, steps
