"""Seams owned by the simulator: virtual clock, fault-injecting file shim, the long-time g-function
memo (also an abort-injection point), abort injection on GHE.simulate, and the in-process CLI runner.

All of them patch module attributes that already exist in the repository (no repo hook is needed):
ghedesigner.manager.time, ghedesigner.output.datetime, builtins.open / io.open / os.mkdir,
ghedesigner.gfunction.calculate_g_function, ghedesigner.ground_heat_exchangers.GHE.simulate.
"""
from __future__ import annotations

import builtins
import contextlib
import datetime as _dt
import errno as _errno
import io
import os
import shutil
import sys
import tempfile

from .kernel import digest


# ------------------------------------------------------------------------------------------ clock
class VirtualClock:
    """The only clock the system reads.  `now` is seconds since the virtual epoch 2030-01-01 00:00:00.
    Each read advances by `step`; the simulator may jump it (forward or backward) between operations."""

    EPOCH = _dt.datetime(2030, 1, 1, 0, 0, 0)

    def __init__(self, start: float = 0.0, step: float = 0.25):
        self.now = float(start)
        self.step = float(step)
        self.reads = []  # (site, value)

    def time(self) -> float:
        v = self.now
        self.now += self.step
        self.reads.append(("time", v))
        return v

    def jump(self, dt: float):
        self.now += dt

    def datetime_cls(self):
        clock = self

        class _VDateTime(_dt.datetime):
            @classmethod
            def now(cls, tz=None):
                v = clock.now
                clock.now += clock.step
                clock.reads.append(("datetime.now", v))
                return clock.EPOCH + _dt.timedelta(seconds=v)

        return _VDateTime


@contextlib.contextmanager
def clock_installed(clock: VirtualClock):
    import ghedesigner.manager as gm
    import ghedesigner.output as go

    saved = (gm.time, go.datetime)
    gm.time = clock.time
    go.datetime = clock.datetime_cls()
    try:
        yield clock
    finally:
        gm.time, go.datetime = saved


# ------------------------------------------------------------------------------------------ file shim
class InjectedIOError(OSError):
    pass


class _FaultyFile:
    """Proxy around a real file object; consults the shim before write / close."""

    def __init__(self, shim, real, path, mode):
        self._shim = shim
        self._real = real
        self._path = path
        self._mode = mode
        self._closed = False

    def write(self, data):
        f = self._shim._hit("write", self._path)
        if f is not None:
            if f.get("partial"):
                k = max(0, min(len(data) - 1, int(len(data) * f.get("frac", 0.5))))
                self._real.write(data[:k])
                self._real.flush()
            raise InjectedIOError(f.get("errno", _errno.ENOSPC), os.strerror(f.get("errno", _errno.ENOSPC)), self._path)
        return self._real.write(data)

    def writelines(self, lines):
        for ln in lines:
            self.write(ln)

    def close(self):
        if self._closed:
            return
        self._closed = True
        f = self._shim._hit("close", self._path) if "w" in self._mode or "a" in self._mode else None
        if f is not None:
            # buffered tail lost: what was not yet flushed never reaches the disk
            try:
                self._real.flush()
                size = self._real.tell()
                keep = int(size * f.get("frac", 0.5))
                self._real.truncate(keep)
            finally:
                self._real.close()
            raise InjectedIOError(f.get("errno", _errno.EIO), os.strerror(f.get("errno", _errno.EIO)), self._path)
        self._real.close()
        self._shim._closed_ok(self._path, self._mode)

    def __enter__(self):
        return self

    def __exit__(self, *a):
        self.close()
        return False

    def __getattr__(self, name):
        return getattr(self._real, name)

    def __iter__(self):
        return iter(self._real)


class FileShim:
    """Fault-injecting storage for everything under `root`.  `faults` is a list of dicts
    {kind: open_w|write|close|mkdir|read_swap, nth: int, errno: int, partial: bool, frac: float,
     match: substring of the path or None}.  `nth` counts events of that kind (1-based) under root."""

    def __init__(self, root: str, faults=None):
        self.root = os.path.realpath(root)
        self.faults = [dict(f) for f in (faults or [])]
        self.counts = {}
        self.fired = []  # (kind, basename, nth)
        self.log = []  # (op, relpath)
        self.read_hooks = {}  # path -> callable(n_read) -> bytes or None
        self.reads = {}
        self._saved = None

    def _under(self, path) -> bool:
        try:
            p = os.path.realpath(os.fspath(path))
        except TypeError:
            return False
        return p == self.root or p.startswith(self.root + os.sep)

    def _hit(self, kind, path):
        base = os.path.basename(str(path))
        self.counts[kind] = self.counts.get(kind, 0) + 1
        self.counts[(kind, base)] = self.counts.get((kind, base), 0) + 1
        n = self.counts[kind]
        for f in self.faults:
            if f["kind"] != kind:
                continue
            if f.get("file"):
                # n-th event of this kind on this particular file
                if f["file"] in base and f["nth"] == self.counts[(kind, base)]:
                    self.fired.append((kind, base, self.counts[(kind, base)]))
                    return f
            elif f["nth"] == n and (not f.get("match") or f["match"] in str(path)):
                self.fired.append((kind, base, n))
                return f
        return None

    def _closed_ok(self, path, mode):
        self.log.append(("closed", os.path.relpath(os.path.realpath(str(path)), self.root), mode))

    def _open(self, file, mode="r", *a, **kw):
        real_open = self._saved[0]
        if isinstance(file, int) or not self._under(file):
            return real_open(file, mode, *a, **kw)
        path = os.fspath(file)
        rel = os.path.relpath(os.path.realpath(path), self.root)
        if any(c in mode for c in "wax+"):
            self.log.append(("open_w", rel, mode))
            f = self._hit("open_w", path)
            if f is not None:
                if f.get("creates_empty"):
                    real_open(path, "w").close()
                raise InjectedIOError(f.get("errno", _errno.EACCES), os.strerror(f.get("errno", _errno.EACCES)), path)
            return _FaultyFile(self, real_open(file, mode, *a, **kw), path, mode)
        self.log.append(("open_r", rel, mode))
        f = self._hit("open_r", path)
        if f is not None:
            raise InjectedIOError(f.get("errno", _errno.EIO), os.strerror(f.get("errno", _errno.EIO)), path)
        n = self.reads[rel] = self.reads.get(rel, 0) + 1
        hook = self.read_hooks.get(rel)
        if hook is not None:
            new = hook(n)
            if new is not None:
                with real_open(path, "wb") as fh:
                    fh.write(new)
                self.fired.append(("read_swap", os.path.basename(path), n))
        return real_open(file, mode, *a, **kw)

    def _mkdir(self, path, mode=0o777, *a, **kw):
        real_mkdir = self._saved[2]
        if not self._under(path):
            return real_mkdir(path, mode, *a, **kw)
        self.log.append(("mkdir", os.path.relpath(os.path.realpath(os.fspath(path)), self.root), ""))
        f = self._hit("mkdir", path)
        if f is not None:
            raise InjectedIOError(f.get("errno", _errno.EACCES), os.strerror(f.get("errno", _errno.EACCES)), os.fspath(path))
        return real_mkdir(path, mode, *a, **kw)

    def __enter__(self):
        self._saved = (builtins.open, io.open, os.mkdir)
        builtins.open = self._open
        io.open = self._open
        os.mkdir = self._mkdir
        return self

    def __exit__(self, *a):
        builtins.open, io.open, os.mkdir = self._saved
        return False


def sweep_stale_scratch():
    """Remove scratch directories left by killed runs (their pid is embedded in the name and no longer alive)."""
    base = os.environ.get("TMPDIR", "/tmp")
    try:
        names = os.listdir(base)
    except OSError:
        return
    for n in names:
        if not n.startswith("ghe-"):
            continue
        parts = n.split("-")
        try:
            pid = int(parts[-2])
        except (ValueError, IndexError):
            continue
        if not os.path.exists(f"/proc/{pid}"):
            shutil.rmtree(os.path.join(base, n), ignore_errors=True)


@contextlib.contextmanager
def scratch_dir(tag="ghe-verif"):
    base = os.environ.get("TMPDIR", "/tmp")
    d = tempfile.mkdtemp(prefix=f"{tag}-{os.getpid()}-", dir=base)
    try:
        yield d
    finally:
        shutil.rmtree(d, ignore_errors=True)


# ------------------------------------------------------------------------------------------ aborts and the g-function memo
class InjectedAbort(Exception):
    """Stands for whatever interrupts an operation in the middle (KeyboardInterrupt, MemoryError, an exception
    from the numerical library).  Deliberately *not* a ValueError so that the repo's own handlers do not swallow it."""


class AbortPlan:
    def __init__(self):
        self.armed = None  # (site, k)
        self.counts = {"gfunc": 0, "simulate": 0, "sts": 0}
        self.fired = []

    def arm(self, site: str, k: int):
        self.armed = (site, k)
        self.counts = {"gfunc": 0, "simulate": 0, "sts": 0}

    def disarm(self):
        self.armed = None

    def tick(self, site: str, ctx=None):
        self.counts[site] = self.counts.get(site, 0) + 1
        if self.armed and self.armed[0] == site and self.counts[site] == self.armed[1]:
            self.fired.append((site, self.armed[1], ctx))
            self.armed = None
            raise InjectedAbort(f"injected abort at {site} call #{self.counts[site]}")


def _gfunc_key(m_flow_borehole, bhe_type, time_values, coordinates, borehole, fluid, pipe, grout, soil, kw):
    return digest([
        m_flow_borehole, bhe_type.name, list(time_values), [list(c) for c in coordinates],
        [borehole.H, borehole.D, borehole.r_b, borehole.tilt, borehole.orientation],
        [fluid.rho, fluid.mu, fluid.cp, fluid.k], [pipe.pos, pipe.r_in, pipe.r_out, pipe.s, pipe.roughness, pipe.k, pipe.rhoCp],
        [grout.k, grout.rhoCp], [soil.k, soil.rhoCp], sorted((k, repr(v)) for k, v in kw.items()),
    ])


class GFuncMemo:
    """Pure memo around ghedesigner.gfunction.calculate_g_function (the pygfunction call, ~50 % of wall time):
    real computation on the first use of an argument tuple, frozen g-values replayed afterwards.
    Only `.gFunc` of the result is used by the repository."""

    def __init__(self, aborts: AbortPlan | None = None, enabled=True):
        self.store = {}
        self.hits = 0
        self.misses = 0
        self.aborts = aborts
        self.enabled = enabled
        self._orig = None

    def __call__(self, m_flow_borehole, bhe_type, time_values, coordinates, borehole, fluid, pipe, grout, soil, **kw):
        if self.aborts is not None:
            self.aborts.tick("gfunc", ctx=borehole.H)
        if not self.enabled:
            return self._orig(m_flow_borehole, bhe_type, time_values, coordinates, borehole, fluid, pipe, grout, soil, **kw)
        import numpy as np
        from types import SimpleNamespace

        key = _gfunc_key(m_flow_borehole, bhe_type, time_values, coordinates, borehole, fluid, pipe, grout, soil, kw)
        if key in self.store:
            self.hits += 1
            return SimpleNamespace(gFunc=np.array(self.store[key]))
        self.misses += 1
        r = self._orig(m_flow_borehole, bhe_type, time_values, coordinates, borehole, fluid, pipe, grout, soil, **kw)
        self.store[key] = np.array(r.gFunc).copy()
        return SimpleNamespace(gFunc=np.array(self.store[key]))

    def install(self):
        import ghedesigner.gfunction as gf

        if getattr(gf.calculate_g_function, "_is_memo", False):
            return
        self._orig = gf.calculate_g_function
        self._is_memo = True
        gf.calculate_g_function = self

    def uninstall(self):
        import ghedesigner.gfunction as gf

        if self._orig is not None:
            gf.calculate_g_function = self._orig


@contextlib.contextmanager
def simulate_abortable(aborts: AbortPlan):
    """Abort points: entry of GHE.simulate, and ("sts") the k-th tridiagonal solve *inside* the short-time-step
    computation (module attribute ghedesigner.radial_numerical_borehole.dgtsv), i.e. a true mid-computation interruption."""
    import ghedesigner.radial_numerical_borehole as rnb
    from ghedesigner.ground_heat_exchangers import GHE

    orig = GHE.simulate
    orig_dgtsv = rnb.dgtsv

    def dgtsv(*a, **kw):
        if aborts.armed and aborts.armed[0] == "sts":
            aborts.tick("sts")
        return orig_dgtsv(*a, **kw)

    rnb.dgtsv = dgtsv

    def simulate(self, *a, **kw):
        # signature-agnostic on purpose: a changed repository may add parameters
        aborts.tick("simulate", ctx=self.bhe.b.H)
        return orig(self, *a, **kw)

    GHE.simulate = simulate
    try:
        yield
    finally:
        GHE.simulate = orig
        rnb.dgtsv = orig_dgtsv


# ------------------------------------------------------------------------------------------ in-process CLI
def run_cli(argv: list) -> dict:
    """Execute the click command the way the console script does (`sys.exit(run_manager_from_cli())`) and map the
    way it ends to the status the interpreter would return."""
    from ghedesigner.manager import run_manager_from_cli

    import ghedesigner.manager as gm

    out, err = io.StringIO(), io.StringIO()
    status, exc = None, None
    saved_argv = sys.argv
    saved_stderr = gm.stderr  # `from sys import stderr` froze the object at import time
    gm.stderr = err
    sys.argv = ["ghedesigner"] + list(argv)
    try:
        with contextlib.redirect_stdout(out), contextlib.redirect_stderr(err):
            try:
                rv = run_manager_from_cli.main(args=list(argv), prog_name="ghedesigner", standalone_mode=True)
                # standalone mode never returns; if a future click does, sys.exit(rv) semantics apply
                status = 0 if rv is None else (rv if isinstance(rv, int) else 1)
            except SystemExit as e:
                c = e.code
                status = 0 if c is None else (c if isinstance(c, int) else 1)
            except BaseException as e:  # noqa: BLE001  uncaught exception -> traceback, status 1
                status = 1
                exc = f"{type(e).__name__}: {e}"
    finally:
        sys.argv = saved_argv
        gm.stderr = saved_stderr
    return {"status": status, "exc": exc, "stdout": out.getvalue(), "stderr": err.getvalue()}
