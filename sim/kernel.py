"""Kernel shared by the three engines: one-integer seeding, canonical digests, the
event log, a watchdog worker pool, replay files, ddmin, known findings and evidence.

Nothing in here draws from a PRNG or reads a real clock on a logging path; wall time is
only measured by the parent for throughput figures and watchdogs.
"""
from __future__ import annotations

import faulthandler
import hashlib
import json
import multiprocessing as mp
import os
import random
import signal
import sys
import time as _real_time
import traceback
from multiprocessing.connection import wait as _mp_wait
from pathlib import Path

VERIF_DIR = Path(__file__).resolve().parent.parent
# (the two overrides exist so that mutant self-tests do not overwrite the evidence of the real tree)
EVIDENCE_DIR = Path(os.environ.get("VERIF_EVIDENCE_DIR") or VERIF_DIR / "evidence")
REPLAY_DIR = Path(os.environ.get("VERIF_REPLAY_DIR") or VERIF_DIR / "replays")
KNOWN_FINDINGS = VERIF_DIR / "known_findings.json"

DEFAULT_SEED = 20260926
PINNED_ENV = {
    "OPENBLAS_NUM_THREADS": "1",
    # the BLAS kernel auto-selected in this sandbox ("Prescott") gives ddot results that depend on the memory
    # alignment of its operands, i.e. on what the process allocated before; the Nehalem kernels do not
    "OPENBLAS_CORETYPE": "Nehalem",
    "OMP_NUM_THREADS": "1",
    "MKL_NUM_THREADS": "1",
    "NUMEXPR_NUM_THREADS": "1",
    "PYTHONHASHSEED": "0",
}


# ----------------------------------------------------------------------------- seeding
def master_seed() -> int:
    try:
        return int(os.environ.get("VERIF_SEED", DEFAULT_SEED))
    except ValueError:
        return DEFAULT_SEED


def derive_rng(seed: int, engine: str, prop: str, index) -> random.Random:
    h = hashlib.sha256(f"{seed}:{engine}:{prop}:{index}".encode()).digest()
    return random.Random(int.from_bytes(h[:16], "big"))


# ----------------------------------------------------------------------------- digests
def canon(obj):
    """JSON-able canonical form; floats become their exact hex string."""
    import numpy as np

    if isinstance(obj, bool) or obj is None or isinstance(obj, (int, str)):
        return obj
    if isinstance(obj, float):
        return "f:" + obj.hex()
    if isinstance(obj, (np.floating,)):
        return "f:" + float(obj).hex()
    if isinstance(obj, (np.integer,)):
        return int(obj)
    if isinstance(obj, np.ndarray):
        return [canon(x) for x in obj.tolist()]
    if isinstance(obj, (list, tuple)):
        return [canon(x) for x in obj]
    if isinstance(obj, dict):
        return {str(k): canon(v) for k, v in sorted(obj.items(), key=lambda kv: str(kv[0]))}
    if isinstance(obj, bytes):
        return "b:" + hashlib.sha256(obj).hexdigest()
    return "r:" + repr(obj)


def digest(obj) -> str:
    return hashlib.sha256(json.dumps(canon(obj), sort_keys=True, separators=(",", ":")).encode()).hexdigest()


def short(d: str, n: int = 12) -> str:
    return d[:n]


def plain(obj):
    """JSON-able copy with floats kept as floats (numpy scalars/arrays converted)."""
    import numpy as np

    if isinstance(obj, bool) or obj is None or isinstance(obj, (int, str, float)):
        return obj
    if isinstance(obj, np.floating):
        return float(obj)
    if isinstance(obj, np.integer):
        return int(obj)
    if isinstance(obj, np.ndarray):
        return [plain(x) for x in obj.tolist()]
    if isinstance(obj, (list, tuple)):
        return [plain(x) for x in obj]
    if isinstance(obj, dict):
        return {str(k): plain(v) for k, v in obj.items()}
    return repr(obj)


def rounded(obj, sig: int = 8):
    """floats rounded to `sig` significant digits — only for counting distinct histories, never for verdicts."""
    if isinstance(obj, float):
        return float(f"{obj:.{sig}g}") if obj == obj and abs(obj) != float("inf") else repr(obj)
    if isinstance(obj, list):
        return [rounded(x, sig) for x in obj]
    if isinstance(obj, dict):
        return {k: rounded(v, sig) for k, v in obj.items()}
    return obj


RTOL = 1.0e-9
ATOL = 1.0e-9


def close(a, b, rtol: float = RTOL, atol: float = ATOL, path: str = ""):
    """Structural equality with a float tolerance.  Returns (True, "") or (False, path of the first difference).
    The numerical libraries underneath the repository (LAPACK calls inside pygfunction's pipe models) return results that
    vary in the last bits with the heap layout of the process, so 'identical' is decided at 1e-9, not bit for bit."""
    if isinstance(a, bool) or isinstance(b, bool) or a is None or b is None or isinstance(a, str) or isinstance(b, str):
        return (True, "") if a == b and type(a) is type(b) else (False, path or "/")
    if isinstance(a, (int, float)) and isinstance(b, (int, float)):
        if a == b:
            return True, ""
        if isinstance(a, int) and isinstance(b, int):
            return False, path or "/"
        if a != a or b != b:
            return ((a != a) and (b != b)), path
        return (abs(a - b) <= atol + rtol * max(abs(a), abs(b))), (path or "/")
    if isinstance(a, list) and isinstance(b, list):
        if len(a) != len(b):
            return False, f"{path}/len({len(a)} vs {len(b)})"
        for i, (x, y) in enumerate(zip(a, b)):
            ok, where = close(x, y, rtol, atol, f"{path}/{i}")
            if not ok:
                return False, where
        return True, ""
    if isinstance(a, dict) and isinstance(b, dict):
        if set(a) != set(b):
            return False, f"{path}/keys({sorted(set(a) ^ set(b))[:4]})"
        for k in a:
            ok, where = close(a[k], b[k], rtol, atol, f"{path}/{k}")
            if not ok:
                return False, where
        return True, ""
    return (a == b), (path or "/")


class EventLog:
    """(seq, op, argument digest, outcome digest of the 8-significant-digit rounding); `raw` keeps the unrounded outcomes
    for the determinism self-test, which compares them with `close`.  The run digest is the hash of the log and is used
    only to count distinct histories."""

    def __init__(self):
        self.events = []
        self.raw = []

    def add(self, op: str, arg, outcome):
        o = plain(outcome)
        self.events.append([len(self.events), op, short(digest(arg), 16), short(digest(rounded(o)), 16)])
        self.raw.append(o)

    def run_digest(self) -> str:
        return digest(self.events)


# ----------------------------------------------------------------------------- results
class Violation(Exception):
    """Raised by oracles.  `vclass` is the stable violation class used for minimisation,
    replay comparison and known-finding matching."""

    def __init__(self, prop: str, vclass: str, detail: str = "", site: str = ""):
        super().__init__(f"{prop}:{vclass}: {detail}")
        self.prop = prop
        self.vclass = vclass
        self.detail = detail
        self.site = site

    def as_dict(self):
        return {"property": self.prop, "vclass": self.vclass, "detail": self.detail, "site": self.site}


def vclasses(r: dict) -> list:
    if r.get("status") != "violation":
        return []
    return [r["violation"]["vclass"]] + [v["vclass"] for v in r.get("more_violations", [])]


def result_ok(**kw):
    d = {"status": "ok"}
    d.update(kw)
    return d


def result_violation(v: Violation, **kw):
    d = {"status": "violation", "violation": v.as_dict()}
    d.update(kw)
    return d


# ----------------------------------------------------------------------------- worker pool
def _job_main(conn, func_path, init_path, wall_cap, idx, plan):
    """One forked process per job: every job starts from the same process state (the parent's, which has only imported
    modules and never executed a plan), so what a job observes cannot depend on which jobs a worker happened to run before."""
    signal.signal(signal.SIGINT, signal.SIG_IGN)
    try:
        func = _resolve(func_path)
        if init_path:
            _resolve(init_path)()
        faulthandler.dump_traceback_later(wall_cap + 5, exit=False, file=sys.stderr)
        res = func(plan)
        faulthandler.cancel_dump_traceback_later()
        conn.send(("done", idx, res))
    except BaseException:  # noqa: BLE001
        try:
            faulthandler.cancel_dump_traceback_later()
        except Exception:  # noqa: BLE001
            pass
        conn.send(("done", idx, {"status": "harness_error", "trace": traceback.format_exc()}))
    finally:
        try:
            conn.close()
        except Exception:  # noqa: BLE001
            pass
        os._exit(0)


def _resolve(path: str):
    mod, _, name = path.partition(":")
    import importlib

    m = importlib.import_module(mod)
    return getattr(m, name)


def preload():
    """Import (only import) the heavy modules in the parent so that forked job processes inherit them."""
    import jsonschema  # noqa: F401
    import pygfunction  # noqa: F401
    import scipy.interpolate  # noqa: F401
    import scipy.optimize  # noqa: F401

    import ghedesigner.manager  # noqa: F401
    import ghedesigner.output  # noqa: F401
    import ghedesigner.search_routines  # noqa: F401


def run_pool(func_path: str, plans: list, workers: int = 16, wall_cap: float = 240.0, init_path: str = "",
             progress=None, deadline: float | None = None):
    """Execute func(plan) for each plan, each in its own forked process, at most `workers` at a time.  Returns results in
    plan order.  A job that exceeds wall_cap gets {"status": "harness_timeout"} and is killed.  `deadline` (absolute real
    time) stops starting new jobs; unstarted jobs get status "skipped"."""
    ctx = mp.get_context("fork")
    n = len(plans)
    results: list = [None] * n
    next_idx = 0
    _resolve(func_path)
    preload()
    running = []  # dicts: proc, conn, idx, t0

    def start_next():
        nonlocal next_idx
        if next_idx >= n:
            return False
        if deadline is not None and _real_time.time() > deadline:
            return False
        parent, child = ctx.Pipe(duplex=False)
        p = ctx.Process(target=_job_main, args=(child, func_path, init_path, wall_cap, next_idx, plans[next_idx]), daemon=True)
        p.start()
        child.close()
        running.append({"proc": p, "conn": parent, "idx": next_idx, "t0": _real_time.time()})
        next_idx += 1
        return True

    workers = max(1, min(workers, n))
    for _ in range(workers):
        start_next()
    done = 0
    while running:
        ready = _mp_wait([s["conn"] for s in running], timeout=1.0)
        now = _real_time.time()
        for s in list(running):
            finished = False
            if s["conn"] in ready:
                try:
                    kind, idx, res = s["conn"].recv()
                    results[idx] = res
                except (EOFError, ConnectionResetError, OSError):
                    results[s["idx"]] = {"status": "harness_error", "trace": "job process died without a result"}
                finished = True
            elif now - s["t0"] > wall_cap:
                results[s["idx"]] = {"status": "harness_timeout", "wall_cap": wall_cap}
                finished = True
            if finished:
                _kill(s)
                running.remove(s)
                done += 1
                if progress:
                    progress(done, n)
                start_next()
    for i in range(n):
        if results[i] is None:
            results[i] = {"status": "skipped"}
    return results


def _kill(slot):
    try:
        slot["proc"].join(timeout=0.5)
        if slot["proc"].is_alive():
            slot["proc"].kill()
            slot["proc"].join(timeout=2)
    except Exception:  # noqa: BLE001
        pass
    try:
        slot["conn"].close()
    except Exception:  # noqa: BLE001
        pass


# ----------------------------------------------------------------------------- ddmin
def ddmin_list(items: list, still_fails, budget: list):
    """Classic ddmin on a list.  still_fails(list)->bool.  budget is a one-element list [remaining]."""
    n = 2
    items = list(items)
    while len(items) >= 1 and budget[0] > 0:
        chunk = max(1, len(items) // n)
        reduced = False
        i = 0
        while i < len(items) and budget[0] > 0:
            cand = items[:i] + items[i + chunk:]
            budget[0] -= 1
            if still_fails(cand):
                items = cand
                n = max(n - 1, 2)
                reduced = True
            else:
                i += chunk
        if not reduced:
            if chunk == 1:
                break
            n = min(len(items), n * 2)
    return items


# ----------------------------------------------------------------------------- known findings
def load_known_findings():
    if not KNOWN_FINDINGS.exists():
        return {"findings": [], "fixed": []}
    return json.loads(KNOWN_FINDINGS.read_text())


def match_known(prop: str, viol: dict, findings=None):
    """A violation matches a known finding iff property, violation class and every key of the
    finding's `match` dict agree with the violation's `features`."""
    findings = findings if findings is not None else load_known_findings()
    for f in findings.get("findings", []):
        if f.get("property") != prop or f.get("vclass") != viol.get("vclass"):
            continue
        feats = viol.get("features", {})
        if all(feats.get(k) == v for k, v in f.get("match", {}).items()):
            return f
    return None


# ----------------------------------------------------------------------------- replay files
def write_replay(prop: str, plan: dict, viol: dict, run_digest: str = "") -> Path:
    REPLAY_DIR.mkdir(exist_ok=True, parents=True)
    body = {"property": prop, "engine": plan.get("engine"), "violation": viol, "run_digest": run_digest, "plan": plan}
    name = f"{prop}-{short(digest(body), 16)}.json"
    p = REPLAY_DIR / name
    p.write_text(json.dumps(body, indent=1, sort_keys=True))
    return p


# ----------------------------------------------------------------------------- evidence
def write_evidence(prop: str, tier: str, seed: int, level: str, coverage: dict, wall_s: float, violations: int,
                   assumptions: list):
    EVIDENCE_DIR.mkdir(exist_ok=True, parents=True)
    ev = {
        "property_id": prop,
        "tier": tier,
        "seed": int(seed),
        "level": level,
        "coverage": coverage,
        "assumptions": assumptions,
        "wall_s": round(float(wall_s), 3),
        "violations": int(violations),
    }
    (EVIDENCE_DIR / f"{prop}.json").write_text(json.dumps(ev, indent=1, sort_keys=True, default=str))
    return ev


def reexec_pinned():
    """Re-exec the interpreter once with the pinned environment (BLAS threads, hash seed)."""
    need = {k: v for k, v in PINNED_ENV.items() if os.environ.get(k) != v}
    if need and os.environ.get("GHE_VERIF_PINNED") != "1":
        env = dict(os.environ)
        env.update(PINNED_ENV)
        env["GHE_VERIF_PINNED"] = "1"
        os.execve(sys.executable, [sys.executable] + sys.argv, env)


def repo_on_path():
    """VERIF_REPO=<dir> puts a scratch copy of the repository first on sys.path (mutant self-tests)."""
    r = os.environ.get("VERIF_REPO")
    if r:
        sys.path.insert(0, r)
