"""E3 — search-protocol simulator.

Real: GHEManager.find_design, design.py, domains.py, the four search classes, GHE.size,
BaseGHE.cost, utilities.solve_root/sign/check_bracket/borehole_spacing.
Stub (fake peer): the evaluator — `GHE` and `calc_g_func_for_multiple_lengths` as seen from
`ghedesigner.search_routines`, and for RowWise the field generator.  The stub answers
"what is the temperature excess of this field at this height?" from a seeded synthetic law
and can inject evaluator faults (ValueError at the k-th evaluation).

A recording wrapper on calculate_excess / initialize_ghe / the stub constructors yields the
history the C02 / C05 / C20 oracles read.
"""
from __future__ import annotations

import contextlib
import hashlib
import io
import math
import random
from types import SimpleNamespace

from . import gen
from .kernel import EventLog, Violation, result_ok, result_violation, vclasses

RECT_FAMILY = ("NEARSQUARE", "RECTANGLE", "BIRECTANGLE", "BIZONEDRECTANGLE")
BISECTION_BASED = ("NEARSQUARE", "RECTANGLE", "BIRECTANGLE", "BIZONEDRECTANGLE", "BIRECTANGLECONSTRAINED")


# ------------------------------------------------------------------------------------------ plan generation
_rows_ok = gen.rows_ok


def draw_geometry(rng: random.Random, method: str) -> dict:
    """E3 has no physics cost, so 1-D lists may reach 64+ entries; nested / polygon lots stay moderate
    because the (real) domain generators are quadratic in the lot size."""
    for _attempt in range(200):
        if method in ("NEARSQUARE", "RECTANGLE"):
            scale = rng.choice(["tiny", "small", "mid", "big"])
        else:
            scale = rng.choice(["tiny", "small", "small", "mid"])
        length = {"tiny": rng.uniform(9.0, 16.0), "small": rng.uniform(15.0, 40.0), "mid": rng.uniform(40.0, 70.0),
                  "big": rng.uniform(70.0, 200.0)}[scale]
        length = gen.r3(length)
        shape = rng.choice(["lt", "eq", "gt"])
        width = length if shape == "eq" else gen.r3(
            length * (rng.uniform(1.1, 1.8) if shape == "lt" else rng.uniform(0.5, 0.9)))
        short_side = min(length, width)
        b_min = gen.r3(rng.uniform(3.0, 6.0))
        b_max = gen.r3(b_min + rng.uniform(0.3, 9.0))
        if method == "NEARSQUARE":
            b = gen.r3(rng.uniform(3.0, 8.0))
            if length / b > 40:
                continue
            return {"method": method, "b": b, "length": length}
        if method == "RECTANGLE":
            if not (_rows_ok(length, b_min, b_max) and _rows_ok(width, b_min, b_max)):
                continue
            return {"method": method, "length": length, "width": width, "b_min": b_min, "b_max": b_max}
        if method in ("BIRECTANGLE", "BIZONEDRECTANGLE"):
            b_max_y = gen.r3(b_max * rng.uniform(1.0, 1.5))
            if not (_rows_ok(length, b_min, b_max) and _rows_ok(width, b_min, b_max_y) and _rows_ok(length, b_min, b_max_y)
                    and _rows_ok(width, b_min, b_max)):
                continue
            return {"method": method, "length": length, "width": width, "b_min": b_min, "b_max_x": b_max,
                    "b_max_y": b_max_y}
        length = min(length, 45.0)
        width = min(width, 45.0)
        if method == "BIRECTANGLECONSTRAINED":
            b_max_y = gen.r3(b_max * rng.uniform(1.0, 1.3))
            ox, oy = gen.r3(rng.uniform(0.0, 10.0)), gen.r3(rng.uniform(0.0, 10.0))
            ext = gen.r3(rng.uniform(0, 6))
            if not (_rows_ok(length + ext, b_min, b_max) and _rows_ok(width, b_min, b_max_y)
                    and _rows_ok(length + ext, b_min, b_max_y) and _rows_ok(width, b_min, b_max)):
                continue
            poly = [[ox, oy], [ox + length, oy], [gen.r3(ox + length + ext), gen.r3(oy + width / 2)],
                    [ox + length, oy + width], [ox, oy + width]]
            nogo = []
            if rng.random() < 0.5:
                cx, cy = ox + length * 0.35, oy + width * 0.35
                nogo = [[[gen.r3(cx), gen.r3(cy)], [gen.r3(cx + length * 0.15), gen.r3(cy)],
                         [gen.r3(cx + length * 0.15), gen.r3(cy + width * 0.2)], [gen.r3(cx), gen.r3(cy + width * 0.2)]]]
            return {"method": method, "b_min": b_min, "b_max_x": b_max, "b_max_y": b_max_y,
                    "property_boundary": poly, "no_go_boundaries": nogo}
        return {"method": method,
                "perimeter_spacing_ratio": gen.r3(rng.uniform(0.6, 0.95)) if rng.random() < 0.5 else None,
                "max_spacing": gen.r3(rng.uniform(8.0, 14.0)), "min_spacing": gen.r3(rng.uniform(4.0, 7.0)),
                "spacing_step": rng.choice([0.1, 0.2, 0.5, 1.0]), "max_rotation": 90.0, "min_rotation": -90.0,
                "rotate_step": 15.0,
                "property_boundary": [[5.0, 5.0], [5.0 + length, 5.0], [5.0 + length, 5.0 + width], [5.0, 5.0 + width]],
                "no_go_boundaries": []}
    raise RuntimeError("geometry generator exhausted")


def draw_plan(rng: random.Random, prop: str, methods=None) -> dict:
    method = rng.choice(methods or gen.METHODS)
    geom = draw_geometry(rng, method)
    min_h = gen.r3(rng.uniform(30.0, 90.0))
    max_h = gen.r3(min_h + rng.uniform(5.0, 150.0))
    nlo, nhi = gen.lot_capacity(geom)
    cap = None
    if (method in RECT_FAMILY and rng.random() < 0.5) or (method == "BIRECTANGLECONSTRAINED" and rng.random() < 0.3):
        # (for the polygon-constrained search only the exception discipline is asserted: the cap clause of the statement
        # names the near-square and rectangular-family searches)
        cap = rng.choice([2, 3, 4, rng.randint(2, max(3, nhi)), rng.randint(2, max(3, nhi + 5))])
    cont = rng.random() < 0.5
    ugt = gen.r3(rng.uniform(8.0, 20.0))
    flow_type = rng.choice(gen.FLOWS)
    cfg = {
        "geometry": geom,
        "pipe": gen.draw_pipe(rng, "SINGLEUTUBE"),
        "fluid": {"fluid_name": rng.choice(gen.FLUIDS), "concentration_percent": 0.0, "temperature": 20.0},
        "grout": {"conductivity": 1.0, "rho_cp": 3.9e6},
        "soil": {"conductivity": 2.0, "rho_cp": 2.3e6, "undisturbed_temp": ugt},
        "borehole": {"height": gen.r3(rng.uniform(min_h, max_h)), "buried_depth": 2.0, "diameter": 0.15},
        "simulation": {"num_months": 12, "max_eft": gen.r3(ugt + 15.0), "min_eft": gen.r3(ugt - 10.0), "max_height": max_h,
                       "min_height": min_h, "max_boreholes": cap, "continue_if_design_unmet": cont},
        "design": {"flow_rate": gen.r3(rng.uniform(0.1, 30.0)), "flow_type": flow_type},
        "loads": {"family": "constant", "amp": 1.0, "seed": 0, "sign": 1.0},
    }
    if cfg["fluid"]["fluid_name"] != "WATER":
        cfg["fluid"]["concentration_percent"] = gen.r3(rng.uniform(5.0, 30.0))
    # monotone: excess strictly decreasing in boreholes x height; sorted: monotone *sign* along the list but seeded
    # magnitudes (what a system flow rate does: per-borehole flow falls as the field grows and the excess creeps back
    # towards zero); adversarial: arbitrary sign pattern; faulty: monotone with a ValueError at the k-th evaluation
    mode = rng.choices(["monotone", "sorted", "adversarial", "faulty"], [0.45, 0.2, 0.2, 0.15])[0]
    eff_hi = max(1, min(nhi, cap - 1) if cap else nhi)
    # feasibility threshold: from "below one borehole at min height" to "above the largest field at max height"
    where = rng.choices(["below", "interior", "above", "edge_lo", "edge_hi"], [0.12, 0.6, 0.12, 0.08, 0.08])[0]
    if where == "below":
        dthr = min_h * rng.uniform(0.05, 0.95)
    elif where == "above":
        dthr = nhi * max_h * rng.uniform(1.05, 4.0)
    elif where == "edge_lo":
        dthr = rng.uniform(min_h, max_h)
    elif where == "edge_hi":
        dthr = eff_hi * max_h * rng.uniform(0.85, 1.15)
    else:
        dthr = math.exp(rng.uniform(math.log(max_h), math.log(max(max_h * 1.01, nhi * max_h))))
    ev = {"mode": mode, "dthr": gen.r3(dthr), "k": gen.r3(rng.uniform(2.0, 30.0)), "alpha": gen.r3(rng.uniform(0.7, 1.0)),
          "binding": rng.choice(["max", "min"]), "pattern_seed": rng.randrange(1 << 30),
          "p_feasible": gen.r3(rng.uniform(0.2, 0.8)), "fault_k": rng.randint(1, 40), "where": where,
          # height dependence: normally the excess falls with height; with negligible loads pushing the fluid away from the
          # nearer limit (or saturated fields) it can creep the other way while keeping its sign
          "h_rising": rng.random() < 0.25}
    return {"engine": "E3", "property": prop, "cfg": cfg, "eval": ev}


# ------------------------------------------------------------------------------------------ the fake peer
class Recorder:
    def __init__(self):
        self.events = []  # dicts
        self.n_eval = 0

    def add(self, **kw):
        kw["seq"] = len(self.events)
        self.events.append(kw)


class Evaluator:
    def __init__(self, spec: dict, sim: dict, rec: Recorder):
        self.s = spec
        self.sim = sim
        self.rec = rec
        self.calls = 0

    def excess(self, coords, h: float) -> float:
        n = len(coords)
        s = self.s
        hmax = self.sim["max_height"]
        hmin = self.sim["min_height"]
        mono = s["k"] * (s["dthr"] / ((n ** s["alpha"]) * h) - 1.0)
        if s["mode"] in ("monotone", "faulty"):
            e = mono
            if s.get("h_rising"):
                # same sign at both ends, but creeping the "wrong" way with height when far from the root
                e_lo = s["k"] * (s["dthr"] / ((n ** s["alpha"]) * hmin) - 1.0)
                e_hi = s["k"] * (s["dthr"] / ((n ** s["alpha"]) * hmax) - 1.0)
                if e_lo * e_hi > 0 and min(abs(e_lo), abs(e_hi)) > 0.2 * s["k"]:
                    e = e_hi + (e_lo - e_hi) * (h - hmin) / (hmax - hmin)  # mirrored: value at hmin <-> value at hmax
        else:
            key = hashlib.sha256(f"{s['pattern_seed']}:{n}:{coords[-1][0]!r}:{coords[-1][1]!r}".encode()).digest()
            u = int.from_bytes(key[:8], "big") / 2.0 ** 64
            mag = 0.5 + 8.0 * (int.from_bytes(key[8:16], "big") / 2.0 ** 64)
            if s["mode"] == "sorted":
                e_max = -mag if s["k"] * (s["dthr"] / ((n ** s["alpha"]) * hmax) - 1.0) < 0 else mag
            else:
                e_max = -mag if u < s["p_feasible"] else mag
            e = e_max + 0.05 * s["k"] * (hmax - h) / hmax * 10.0
        if e == 0.0:
            e = 1.0e-9
        return e

    def temps(self, coords, h: float):
        self.calls += 1
        if self.s["mode"] == "faulty" and self.calls == self.s["fault_k"]:
            self.rec.add(kind="fault", n=len(coords), h=h)
            raise ValueError("A value in x_new is above the interpolation range.")  # what scipy's interp1d says
        e = self.excess(coords, h)
        if self.s["binding"] == "max":
            return self.sim["max_eft"] + e, self.sim["min_eft"] + 1000.0
        return self.sim["max_eft"] - 1000.0, self.sim["min_eft"] - e


def make_stub_ghe(evaluator: Evaluator, rec: Recorder):
    from ghedesigner.ground_heat_exchangers import GHE, BaseGHE

    class StubGHE:
        cost = BaseGHE.cost  # real
        size = GHE.size  # real (uses real solve_root)

        def __init__(self, v_flow_system, b_spacing, bhe_type, fluid, borehole, pipe, grout, soil, g_function,
                     sim_params, hourly_extraction_ground_loads, field_type="N/A", field_specifier="N/A",
                     load_years=None):
            self.V_flow_system = v_flow_system
            self.B_spacing = b_spacing
            self.gFunction = g_function
            self.nbh = len(g_function.bore_locations)
            self.bhe_type = bhe_type
            self.bhe = SimpleNamespace(b=borehole, fluid=fluid, pipe=pipe, grout=grout, soil=soil)
            self.sim_params = sim_params
            self.fieldType = field_type
            self.fieldSpecifier = field_specifier
            self.hp_eft = []
            self.n_g = 1
            rec.add(kind="ghe", n=self.nbh, v_flow_system=v_flow_system, h=borehole.H, spec=field_specifier,
                    m_flow_g=getattr(g_function, "_m_flow", None))

        def simulate(self, method):
            mx, mn = evaluator.temps(self.gFunction.bore_locations, self.bhe.b.H)
            self.hp_eft = [mx, mn]
            rec.add(kind="sim", n=self.nbh, h=self.bhe.b.H, e=self.cost(mx, mn), coords=self.gFunction.bore_locations)
            return mx, mn

        def compute_g_functions(self):
            self.n_g = 3
            rec.add(kind="regen", n=self.nbh)

        def __getattr__(self, name):
            # lenient stand-in: class-level constants of the real GHE are inherited; instance attributes a changed
            # GHE.size might keep on the object read as None instead of raising
            if name.startswith("__"):
                raise AttributeError(name)
            v = getattr(GHE, name, None)
            return None if callable(v) else v

    return StubGHE


def make_stub_gfunc(rec: Recorder):
    def calc_g_func_for_multiple_lengths(b, h_values, r_b, depth, m_flow_borehole, bhe_type, log_time, coordinates,
                                         fluid, pipe, grout, soil, **kw):
        g = SimpleNamespace(bore_locations=coordinates, B=b, g_lts={h: [] for h in h_values}, log_time=log_time,
                            _m_flow=m_flow_borehole)
        rec.add(kind="gfunc", n=len(coordinates), m_flow=m_flow_borehole, h_values=list(h_values))
        return g

    return calc_g_func_for_multiple_lengths


def stub_field(spacing: float, prop_bound) -> list:
    xs = [p[0] for p in prop_bound]
    ys = [p[1] for p in prop_bound]
    x0, y0 = min(xs), min(ys)
    nx = int(math.floor((max(xs) - x0) / spacing)) + 1
    ny = int(math.floor((max(ys) - y0) / spacing)) + 1
    return [[x0 + i * spacing, y0 + j * spacing] for i in range(nx) for j in range(ny)]


@contextlib.contextmanager
def installed(evaluator: Evaluator, rec: Recorder, rowwise_stub: bool):
    import ghedesigner.search_routines as sr

    saved = {k: getattr(sr, k) for k in ("GHE", "calc_g_func_for_multiple_lengths", "field_optimization_fr",
                                         "field_optimization_wp_space_fr", "gen_shape")}
    saved_methods = {}
    sr.GHE = make_stub_ghe(evaluator, rec)
    sr.calc_g_func_for_multiple_lengths = make_stub_gfunc(rec)
    if rowwise_stub:
        sr.gen_shape = lambda pb, ng: (pb, ng)
        sr.field_optimization_fr = lambda s, rs, pb, ng_zones=None, rotate_start=None, rotate_stop=None: (
            stub_field(s, pb), f"stub_S{s:0.4f}")
        sr.field_optimization_wp_space_fr = lambda p, s, rs, pb, ng_zones=None, rotate_start=None, rotate_stop=None: (
            stub_field(s, pb), f"stub_P{p}_S{s:0.4f}")
    orig_search = sr.Bisection1D.search

    def search(self, _o=orig_search):
        try:
            return _o(self)
        except ValueError as e:
            rec.add(kind="search_raised", cls=type(self).__name__, msg=str(e)[:80])
            raise

    sr.Bisection1D.search = search
    for cls in (sr.Bisection1D, sr.RowWiseModifiedBisectionSearch):
        orig_ce = cls.calculate_excess
        orig_ig = cls.initialize_ghe
        saved_methods[cls] = (orig_ce, orig_ig)

        def ce(self, coordinates, h, *a, _o=orig_ce, **kw):
            # (signature-agnostic: a changed repository may pass further arguments)
            field_specifier = kw.get("field_specifier", a[0] if a else "N/A")
            rec.add(kind="eval_begin", cls=type(self).__name__, n=len(coordinates), h=h, spec=field_specifier)
            v = _o(self, coordinates, h, *a, **kw)
            rec.add(kind="eval", cls=type(self).__name__, n=len(coordinates), h=h, spec=field_specifier, e=v,
                    coords=coordinates)
            return v

        def ig(self, coordinates, h, *a, _o=orig_ig, **kw):
            field_specifier = kw.get("field_specifier", a[0] if a else "N/A")
            try:
                fl = self.retrieve_flow(coordinates, (self.fluid if hasattr(self, "fluid") else self.ghe.bhe.fluid).rho)
            except Exception:  # noqa: BLE001
                fl = (None, None)
            rec.add(kind="init", cls=type(self).__name__, n=len(coordinates), h=h, spec=field_specifier,
                    flow_sys=fl[0], m_flow=fl[1])
            return _o(self, coordinates, h, *a, **kw)

        cls.calculate_excess = ce
        cls.initialize_ghe = ig
    try:
        yield
    finally:
        sr.Bisection1D.search = orig_search
        for k, v in saved.items():
            setattr(sr, k, v)
        for cls, (a, b) in saved_methods.items():
            cls.calculate_excess = a
            cls.initialize_ghe = b


# ------------------------------------------------------------------------------------------ execution
def execute(plan: dict) -> dict:
    """Runs the plan; returns an observation dict (not JSON: holds live references)."""
    cfg = plan["cfg"]
    rec = Recorder()
    ev = Evaluator(plan["eval"], cfg["simulation"], rec)
    out = io.StringIO()
    obs = {"rec": rec, "evaluator": ev}
    with installed(ev, rec, rowwise_stub=True), contextlib.redirect_stdout(out), contextlib.redirect_stderr(io.StringIO()):
        try:
            mgr = gen.build_manager(cfg)
        except Exception as e:  # noqa: BLE001  generators raise by design on too-narrow lots
            obs.update(outcome="build_error", exc_type=type(e).__name__, exc_msg=str(e))
            return obs
        obs["mgr"] = mgr
        d = mgr._design
        obs["domain"] = getattr(d, "coordinates_domain", None)
        obs["domain_nested"] = getattr(d, "coordinates_domain_nested", None)
        if (obs["domain"] is not None and len(obs["domain"]) == 0) or (
                obs["domain_nested"] is not None and (len(obs["domain_nested"]) == 0 or any(
                    len(x) == 0 for x in obs["domain_nested"]))):
            obs.update(outcome="degenerate_domain")
            obs["stdout"] = ""
            return obs
        try:
            mgr.find_design()
            s = mgr._search
            obs.update(outcome="design", n=len(s.ghe.gFunction.bore_locations), h=s.ghe.bhe.b.H,
                       coords=s.ghe.gFunction.bore_locations, search=s)
        except ValueError as e:
            obs.update(outcome="ValueError", exc_type="ValueError", exc_msg=str(e))
        except Exception as e:  # noqa: BLE001
            import traceback

            obs.update(outcome="other_exception", exc_type=type(e).__name__, exc_msg=str(e),
                       trace=traceback.format_exc(limit=6))
    obs["stdout"] = out.getvalue()
    return obs


def event_log(obs) -> EventLog:
    log = EventLog()
    for ev in obs["rec"].events:
        log.add(ev["kind"], {k: v for k, v in ev.items() if k not in ("coords", "kind")}, ev.get("e"))
    log.add("outcome", [obs.get("outcome"), obs.get("n"), obs.get("h")], obs.get("exc_msg"))
    return log


# ------------------------------------------------------------------------------------------ oracles
def _evals(obs, at_h=None):
    evs = [e for e in obs["rec"].events if e["kind"] == "eval"]
    if at_h is not None:
        evs = [e for e in evs if e["h"] == at_h]
    return evs


def oracle_c02(plan, obs):
    cfg = plan["cfg"]
    sim = cfg["simulation"]
    method = cfg["geometry"]["method"]
    mode = plan["eval"]["mode"]
    hmin, hmax, cap, cont = sim["min_height"], sim["max_height"], sim["max_boreholes"], sim["continue_if_design_unmet"]
    feats = {"method": method, "mode": mode, "cap": cap is not None, "cont": cont}
    oc = obs["outcome"]
    if oc in ("build_error", "degenerate_domain"):
        return oc
    if oc == "other_exception":
        raise Violation("C02", "exception_type", f"{obs['exc_type']}: {obs['exc_msg']} ({method}, {mode})",
                        site=f"{method}:{obs['exc_type']}")
    if oc == "design":
        h, n = obs["h"], obs["n"]
        if not (hmin <= h <= hmax):
            raise Violation("C02", "height_out_of_bounds", f"H={h!r} not in [{hmin},{hmax}] ({method})", site=method)
        if cap is not None and method in RECT_FAMILY and n > cap:
            raise Violation("C02", "cap_exceeded", f"{n} boreholes > max_boreholes={cap} ({method})", site=method)
    if method in ("NEARSQUARE", "RECTANGLE") and mode != "faulty":
        dom = obs["domain"]
        allowed = [i for i, c in enumerate(dom) if cap is None or len(c) < cap]
        evs = _evals(obs)
        if len(evs) >= 3 and allowed:
            t0_lower, t0_upper, t_m1 = evs[0], evs[1], evs[2]
            # the three probes the search makes first; read from the recorded answers
            probes_ok = (t0_lower["h"] == hmin and t0_upper["h"] == hmax and t_m1["h"] == hmax)
            if probes_ok:
                evs_max = _evals(obs, hmax)
                too_large = all(e["e"] > 0 for e in evs_max) and t0_lower["e"] > 0
                too_small = t0_lower["e"] < 0 and t0_upper["e"] < 0 and t_m1["e"] < 0
                if too_large or too_small:
                    which = "too_large" if too_large else "too_small"
                    if not cont:
                        if oc != "ValueError":
                            raise Violation("C02", "unmet_not_raised",
                                            f"{which}: no candidate can meet the limits, policy off, but outcome={oc}",
                                            site=f"{method}:{which}")
                    else:
                        if oc != "design":
                            raise Violation("C02", "unmet_continue_raised", f"{which}: policy on but outcome={oc}",
                                            site=f"{method}:{which}")
                        if too_large:
                            want_n = max(len(dom[i]) for i in allowed)
                            if obs["n"] != want_n or obs["h"] != hmax:
                                raise Violation("C02", "unmet_continue_wrong_pick",
                                                f"too_large: returned {obs['n']}@{obs['h']}, want {want_n}@{hmax}",
                                                site=f"{method}:too_large")
                        else:
                            want_n = len(dom[0])
                            if obs["n"] != want_n or obs["h"] != hmin:
                                raise Violation("C02", "unmet_continue_wrong_pick",
                                                f"too_small: returned {obs['n']}@{obs['h']}, want {want_n}@{hmin}",
                                                site=f"{method}:too_small")
                    return which + ("_cont" if cont else "_raise")
    if method == "ROWWISE" and mode != "faulty":
        evs = _evals(obs)
        if len(evs) >= 2 and evs[0]["e"] > 0 and evs[1]["e"] > 0:
            if not cont and oc != "ValueError":
                raise Violation("C02", "unmet_not_raised", f"rowwise too_large, policy off, outcome={oc}",
                                site="ROWWISE:too_large")
            if cont:
                if oc != "design":
                    raise Violation("C02", "unmet_continue_raised", f"rowwise too_large, policy on, outcome={oc}",
                                    site="ROWWISE:too_large")
                if obs["n"] != evs[0]["n"] or obs["h"] != hmax:
                    raise Violation("C02", "unmet_continue_wrong_pick",
                                    f"rowwise too_large: returned {obs['n']}@{obs['h']}, want {evs[0]['n']}@{hmax}",
                                    site="ROWWISE:too_large")
            return "too_large" + ("_cont" if cont else "_raise")
    if method in ("BIRECTANGLE", "BIZONEDRECTANGLE", "BIRECTANGLECONSTRAINED") and mode == "monotone":
        # nested searches under a monotone evaluator: 'largest allowed candidate' is read as 'at maximum height and within
        # the cap' (which list the nested search ends in is not part of the statement)
        evs = _evals(obs)
        evs_max = _evals(obs, hmax)
        if len(evs) >= 3 and evs[0]["h"] == hmin:
            too_large = all(e["e"] > 0 for e in evs)
            too_small = all(e["e"] < 0 for e in evs) and evs[0]["e"] < 0
            if too_large or too_small:
                which = "too_large" if too_large else "too_small"
                if not cont and oc != "ValueError":
                    raise Violation("C02", "unmet_not_raised", f"{which} ({method}): every evaluation says so, policy off, but "
                                                               f"outcome={oc}", site=f"{method}:{which}")
                if cont:
                    if oc != "design":
                        raise Violation("C02", "unmet_continue_raised", f"{which} ({method}): policy on but outcome={oc} "
                                                                        f"({obs.get('exc_msg')})", site=f"{method}:{which}")
                    want_h = hmax if too_large else hmin
                    if obs["h"] != want_h:
                        raise Violation("C02", "unmet_continue_wrong_pick", f"{which} ({method}): returned {obs['n']}@{obs['h']}, "
                                                                            f"want height {want_h}", site=f"{method}:{which}")
                    if too_small and obs["n"] != min(e["n"] for e in evs):
                        raise Violation("C02", "unmet_continue_wrong_pick", f"too_small ({method}): returned {obs['n']} boreholes, "
                                                                            f"smallest evaluated has {min(e['n'] for e in evs)}",
                                        site=f"{method}:too_small")
                return which + ("_cont" if cont else "_raise")
    return oc


def _same(a, b):
    return a is b or a == b


def oracle_c05(plan, obs):
    cfg = plan["cfg"]
    sim = cfg["simulation"]
    method = cfg["geometry"]["method"]
    mode = plan["eval"]["mode"]
    hmin, hmax = sim["min_height"], sim["max_height"]
    if obs["outcome"] != "design":
        return obs["outcome"]
    n, h = obs["n"], obs["h"]
    ev = obs["evaluator"]
    tag = "design"
    # (iii) height is a root unless clamped — evaluated on the evaluator's own law (not counted as a call)
    if mode != "faulty":
        e_h = ev.excess(obs["coords"], h)
        if h < hmax and e_h > 1.0e-3:
            raise Violation("C05", "height_not_root_infeasible", f"excess({n}@{h})={e_h:.4g} > 1e-3 with H<max ({method})",
                            site=method)
        if h > hmin and e_h < -1.0e-3:
            raise Violation("C05", "height_oversized", f"excess({n}@{h})={e_h:.4g} < -1e-3 with H>min ({method},{mode})",
                            site=method)
        tag = "clamped_min" if h == hmin else "clamped_max" if h == hmax else "root"
    fault_fired = any(e["kind"] == "fault" for e in obs["rec"].events)
    if fault_fired:
        # relaxation under faults, deliberately narrow: a swallowed evaluator fault (BisectionZD) may cost optimality;
        # the root clause above still applies, the comparison clauses below do not
        return tag + "_after_fault"
    if method in BISECTION_BASED:
        total = n * h
        swallowed = any(e["kind"] == "search_raised" for e in obs["rec"].events)
        for e in _evals(obs, hmax):
            if e["e"] < 0 and total > e["n"] * hmax * (1 + 1e-12):
                raise Violation("C05", "more_drilling_than_evaluated_feasible",
                                f"returned {n}x{h:.3f}={total:.1f} m > {e['n']}x{hmax} of evaluated feasible {e['spec']} "
                                f"({method},{mode}{', a list search raised and was swallowed' if swallowed else ''})",
                                site=f"{method}:swallowed_search_error" if swallowed else f"{method}:{mode}")
    if method in ("NEARSQUARE", "RECTANGLE", "BIRECTANGLE") and mode in ("monotone", "sorted"):
        s = obs["search"]
        dom = s.coordinates_domain
        key = s.selection_key
        if not _same(dom[key], obs["coords"]):
            raise Violation("C05", "selection_key_mismatch", f"selected_coordinates is not domain[{key}]", site=method)
        sel_hits = [e for e in _evals(obs, hmax) if _same(e["coords"], obs["coords"])]
        sel_feasible = any(e["e"] < 0 for e in sel_hits)
        if key > 0 and sel_feasible:
            prev = dom[key - 1]
            hit = [e for e in _evals(obs, hmax) if _same(e["coords"], prev)]
            if not hit:
                raise Violation("C05", "predecessor_not_evaluated",
                                f"candidate {key - 1} ({len(prev)} bh) before selected {key} ({n} bh) never evaluated at "
                                f"max height ({method})", site=method)
            if not any(e["e"] > 0 for e in hit):
                raise Violation("C05", "predecessor_feasible",
                                f"candidate {key - 1} ({len(prev)} bh) is feasible at max height but {key} ({n} bh) selected",
                                site=method)
    return tag


def oracle_c20(plan, obs):
    cfg = plan["cfg"]
    v = cfg["design"]["flow_rate"]
    ft = cfg["design"]["flow_type"]
    if obs["outcome"] in ("build_error", "degenerate_domain"):
        return obs["outcome"]
    mgr = obs["mgr"]
    rho = mgr._fluid.rho
    evs = obs["rec"].events
    n_checked = 0
    ns = set()
    for i, e in enumerate(evs):
        if e["kind"] != "ghe":
            continue
        n = e["n"]
        m_g = e["m_flow_g"]
        if ft == "BOREHOLE":
            want_sys = v * n
            want_m = v / 1000.0 * rho
        else:
            want_sys = v
            want_m = v / n / 1000.0 * rho
        m_ghe = e["v_flow_system"] / n / 1000.0 * rho  # what BaseGHE.__init__ derives from the system flow
        for name, got, want in (("system_flow", e["v_flow_system"], want_sys), ("gfunc_mass_flow", m_g, want_m),
                                ("ghe_mass_flow", m_ghe, want_m)):
            if got is None or abs(got - want) > 1e-12 * abs(want):
                raise Violation("C20", "flow_split", f"{name}: got {got!r} want {want!r} for N={n}, {ft} v={v}",
                                site=f"{cfg['geometry']['method']}:{ft}:{name}")
        n_checked += 1
        ns.add(n)
    obs["c20_checked"] = n_checked
    obs["c20_ns"] = len(ns)
    return f"{ft}:{min(len(ns), 9)}"


ORACLES = {"C02": oracle_c02, "C05": oracle_c05, "C20": oracle_c20}


def run_plan(plan: dict) -> dict:
    obs = execute(plan)
    log = event_log(obs)
    prop = plan["property"]
    evs = _evals(obs)
    dom = obs.get("domain")
    nested = obs.get("domain_nested")
    list_len = len(dom) if dom is not None else (max(len(x) for x in nested) if nested else 0)
    method = plan["cfg"]["geometry"]["method"]
    mode = plan["eval"]["mode"]
    where = plan["eval"]["where"]
    cap = plan["cfg"]["simulation"]["max_boreholes"]
    faults = sum(1 for e in obs["rec"].events if e["kind"] == "fault")
    oc = obs.get("outcome")
    info = {
        "digest": log.run_digest(), "outcome": oc, "n": obs.get("n"), "h": obs.get("h"),
        "n_evals": len(evs), "method": method, "mode": mode, "where": where, "list_len": list_len,
        "exc": obs.get("exc_msg"), "cap": cap, "nontrivial": len(evs) >= 3, "cost": len(obs["rec"].events),
    }
    count = {f"outcome:{oc}": 1, f"mode:{mode}": 1, f"method:{method}": 1, "evaluations_of_stub": len(evs),
             f"threshold:{where}": 1, f"fault:evaluator_ValueError_fired": faults,
             "cap:given": 1 if cap is not None else 0, f"policy:continue={plan['cfg']['simulation']['continue_if_design_unmet']}": 1}
    if faults and oc == "design":
        count["probe:evaluator_fault_swallowed_design_returned"] = 1
    if cap is not None and dom is not None and any(len(c) >= cap for c in dom):
        count["probe:cap_binding"] = 1
    info["count"] = count
    capb = "none" if cap is None else ("binding" if count.get("probe:cap_binding") else "loose")
    info["sets"] = {"list_len": [list_len], "len_threshold_cap": [f"{list_len}:{where}:{capb}"],
                    "method_mode_outcome": [f"{method}:{mode}:{oc}"]}
    try:
        tag = ORACLES[prop](plan, obs)
        info["tag"] = tag
        count[f"tag:{tag}"] = 1
        if prop == "C20":
            count["flow_records_checked"] = obs.get("c20_checked", 0)
        info["sample"] = {"geometry": plan["cfg"]["geometry"], "simulation": plan["cfg"]["simulation"],
                          "design": plan["cfg"]["design"], "evaluator": plan["eval"], "outcome": oc, "boreholes": obs.get("n"),
                          "height": obs.get("h"), "history": [[e["n"], e["h"], round(e["e"], 4)] for e in evs][:40],
                          "oracle_tag": tag}
        return result_ok(**info)
    except Violation as v:
        feats = {"method": method, "mode": mode, "site": v.site}
        d = v.as_dict()
        d["features"] = feats
        r = result_violation(v, **info)
        r["violation"] = d
        return r


def make_plans(job: dict) -> list:
    from .kernel import derive_rng

    return [draw_plan(derive_rng(job["seed"], "E3", job["prop"], i), job["prop"], job.get("methods"))
            for i in range(job["start"], job["start"] + job["count"])]


def run_many(job: dict) -> dict:
    """Worker entry: a job is {"prop", "seed", "start", "count", "methods"}; plans are regenerated from the seed."""
    outs = []
    for k, plan in enumerate(make_plans(job)):
        i = job["start"] + k
        r = run_plan(plan)
        r["index"] = i
        if r["status"] == "violation":
            r["plan"] = plan
            r["jobspec"] = job
        if k >= 1 or job["start"] % 7:
            r.pop("sample", None)
        outs.append(r)
    return {"status": "ok", "results": outs}


# ------------------------------------------------------------------------------------------ minimisation
def _variants(plan: dict):
    """Simpler neighbours of a plan, most aggressive first."""
    import copy

    def mod(fn):
        q = copy.deepcopy(plan)
        try:
            fn(q)
        except Exception:  # noqa: BLE001
            return None
        return q if q != plan else None

    sim = lambda q: q["cfg"]["simulation"]  # noqa: E731
    geo = lambda q: q["cfg"]["geometry"]  # noqa: E731
    out = [
        mod(lambda q: q["eval"].update(mode="monotone")),
        mod(lambda q: sim(q).update(max_boreholes=None)),
        mod(lambda q: sim(q).update(continue_if_design_unmet=False)),
        mod(lambda q: q["cfg"]["design"].update(flow_type="BOREHOLE")),
        mod(lambda q: q["cfg"]["fluid"].update(fluid_name="WATER", concentration_percent=0.0)),
        mod(lambda q: geo(q).update(no_go_boundaries=[]) if "no_go_boundaries" in geo(q) else None),
        mod(lambda q: geo(q).update(perimeter_spacing_ratio=None) if "perimeter_spacing_ratio" in geo(q) else None),
    ]
    for key in ("length", "width"):
        if key in plan["cfg"]["geometry"]:
            for f in (0.5, 0.75, 0.9):
                out.append(mod(lambda q, key=key, f=f: geo(q).update({key: gen.r3(geo(q)[key] * f)})))
            out.append(mod(lambda q, key=key: geo(q).update({key: float(round(geo(q)[key]))})))
    for key in ("b", "b_min", "b_max", "b_max_x", "b_max_y", "min_spacing", "max_spacing"):
        if key in plan["cfg"]["geometry"]:
            out.append(mod(lambda q, key=key: geo(q).update({key: float(round(geo(q)[key]))})))
    out.append(mod(lambda q: sim(q).update(min_height=float(round(sim(q)["min_height"])))))
    out.append(mod(lambda q: sim(q).update(max_height=float(round(sim(q)["max_height"])))))
    out.append(mod(lambda q: sim(q).update(max_boreholes=max(2, sim(q)["max_boreholes"] // 2)) if sim(q)[
        "max_boreholes"] else None))
    out.append(mod(lambda q: q["eval"].update(dthr=float(round(q["eval"]["dthr"])))))
    out.append(mod(lambda q: q["eval"].update(k=10.0, alpha=1.0)))
    out.append(mod(lambda q: q["eval"].update(binding="max")))
    out.append(mod(lambda q: q["eval"].update(fault_k=max(1, q["eval"]["fault_k"] - 1))))
    out.append(mod(lambda q: q["cfg"]["design"].update(flow_rate=1.0)))
    return [q for q in out if q is not None]


def minimise(plan: dict, vclass: str, budget: int):
    """Greedy descent over `_variants` while the same violation class persists (runs are sub-second)."""
    steps = 0
    cur = plan
    improved = True
    while improved and budget > 0:
        improved = False
        for q in _variants(cur):
            if budget <= 0:
                break
            budget -= 1
            try:
                r = run_plan(q)
            except Exception:  # noqa: BLE001
                continue
            if vclass in vclasses(r):
                cur = q
                steps += 1
                improved = True
                break
    return cur, steps
