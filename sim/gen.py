"""Seeded workload generator: configurations (plain dicts = the reference model's state),
load profiles (stored as a small spec and expanded deterministically), and the canonical /
permuted construction of a GHEManager from a configuration.

Everything here is data; nothing touches the repository until `build_manager` is called.
"""
from __future__ import annotations

import math
import random

METHODS = ["NEARSQUARE", "RECTANGLE", "BIRECTANGLE", "BIZONEDRECTANGLE", "BIRECTANGLECONSTRAINED", "ROWWISE"]
PIPES = ["SINGLEUTUBE", "DOUBLEUTUBEPARALLEL", "DOUBLEUTUBESERIES", "COAXIAL"]
FLUIDS = ["WATER", "ETHYLALCOHOL", "ETHYLENEGLYCOL", "METHYLALCOHOL", "PROPYLENEGLYCOL"]
FLOWS = ["BOREHOLE", "SYSTEM"]
LOAD_FAMILIES = ["cooling", "heating", "balanced", "constant", "spiky", "single_cool", "single_heat"]


def r3(x: float) -> float:
    """round to a short decimal so that JSON plans stay readable; still an arbitrary double."""
    return float(f"{x:.4g}")


# ------------------------------------------------------------------------------------ loads
def expand_loads(spec: dict) -> list:
    """8760 hourly ground loads in W, extraction positive (the API's convention)."""
    fam = spec["family"]
    amp = float(spec["amp"])
    rng = random.Random(spec["seed"])
    ph = spec.get("phase", 0.0)
    out = []
    if fam == "constant":
        sgn = spec.get("sign", 1.0)
        return [sgn * amp] * 8760
    spikes = {}
    if fam == "spiky":
        for _ in range(spec.get("nspikes", 12)):
            spikes[rng.randrange(8760)] = rng.choice([-1.0, 1.0]) * amp * rng.uniform(1.5, 3.0)
    noise = [rng.uniform(-0.05, 0.05) for _ in range(97)]
    for h in range(8760):
        season = math.cos(2 * math.pi * (h / 8760.0) + ph)  # +1 in winter (hour 0): heating = extraction
        daily = 1.0 + 0.4 * math.sin(2 * math.pi * (h % 24) / 24.0)
        if fam == "cooling":
            v = amp * (0.35 * season - 0.65 * max(0.0, -season) - 0.1) * daily
        elif fam == "heating":
            v = amp * (0.35 * season + 0.65 * max(0.0, season) + 0.1) * daily
        elif fam == "balanced":
            v = amp * season * daily
        elif fam == "spiky":
            v = 0.25 * amp * season * daily
        elif fam == "single_cool":
            v = -amp * max(0.0, -season) * daily
        elif fam == "single_heat":
            v = amp * max(0.0, season) * daily
        else:
            raise ValueError(fam)
        v += amp * noise[h % 97]
        if fam == "single_cool":
            v = min(v, 0.0)
        if fam == "single_heat":
            v = max(v, 0.0)
        if h in spikes:
            v = spikes[h]
        out.append(float(v))
    return out


# ------------------------------------------------------------------------------------ config
def draw_pipe(rng: random.Random, arrangement: str) -> dict:
    if arrangement == "COAXIAL":
        return {
            "arrangement": arrangement,
            "inner_pipe_d_in": r3(rng.uniform(0.042, 0.046)),
            "inner_pipe_d_out": r3(rng.uniform(0.049, 0.051)),
            "outer_pipe_d_in": r3(rng.uniform(0.095, 0.099)),
            "outer_pipe_d_out": r3(rng.uniform(0.108, 0.112)),
            "roughness": 1.0e-6,
            "conductivity_inner": r3(rng.uniform(0.3, 0.5)),
            "conductivity_outer": r3(rng.uniform(0.3, 0.5)),
            "rho_cp": r3(rng.uniform(1.4e6, 1.7e6)),
        }
    big = rng.random() < 0.4 and arrangement == "SINGLEUTUBE"
    if big:
        d_in, d_out = 0.03404, 0.04216
    else:
        d_in, d_out = 0.02655, 0.03340
    return {
        "arrangement": arrangement,
        "inner_diameter": d_in,
        "outer_diameter": d_out,
        "shank_spacing": r3(rng.uniform(0.015, 0.032)),
        "roughness": rng.choice([1.0e-6, 1.5e-6]),
        "conductivity": r3(rng.uniform(0.35, 0.5)),
        "rho_cp": r3(rng.uniform(1.4e6, 1.7e6)),
    }


def rows_ok(side: float, b_min: float, b_max: float) -> bool:
    """some integer row count n >= 3 has b_min <= side/(n-1) <= b_max (else the generators yield empty lists)"""
    n_lo = math.ceil(side / b_max + 1)
    n_hi = math.floor(side / b_min + 1)
    return n_lo <= n_hi and n_lo >= 3


def draw_geometry(rng: random.Random, method: str, small: bool = True) -> dict:
    for _ in range(500):
        g = _draw_geometry(rng, method, small)
        if method in ("RECTANGLE",):
            ok = rows_ok(g["length"], g["b_min"], g["b_max"]) and rows_ok(g["width"], g["b_min"], g["b_max"])
        elif method in ("BIRECTANGLE", "BIZONEDRECTANGLE"):
            ok = all(rows_ok(sd, g["b_min"], bm) for sd in (g["length"], g["width"]) for bm in (g["b_max_x"], g["b_max_y"]))
        elif method == "BIRECTANGLECONSTRAINED":
            xs = [p[0] for p in g["property_boundary"]]
            ys = [p[1] for p in g["property_boundary"]]
            ok = all(rows_ok(sd, g["b_min"], bm) for sd in (max(xs) - min(xs), max(ys) - min(ys))
                     for bm in (g["b_max_x"], g["b_max_y"]))
        else:
            ok = True
        if ok:
            return g
    raise RuntimeError("geometry generator exhausted")


def _draw_geometry(rng: random.Random, method: str, small: bool = True) -> dict:
    lo, hi = (15.0, 40.0) if small else (30.0, 80.0)
    if method == "ROWWISE":
        lo = 24.0
    length = r3(rng.uniform(lo, hi))
    shape = rng.choice(["lt", "eq", "gt"])
    if shape == "eq":
        width = length
    elif shape == "lt":
        width = r3(length * rng.uniform(1.1, 1.6 if method != "ROWWISE" else 1.3))
    else:
        width = r3(length * rng.uniform(0.55 if method != "ROWWISE" else 0.8, 0.9))
    short_side = min(length, width)
    b_min = r3(rng.uniform(3.0, 5.0))
    # lots must admit >= 3 rows at the maximum spacing (property C02's precondition)
    b_max = r3(min(rng.uniform(b_min + 1.0, b_min + 5.0), short_side / 2.0 - 0.01))
    b_max = max(b_max, r3(b_min + 0.5))
    if method == "NEARSQUARE":
        return {"method": method, "b": r3(rng.uniform(4.0, 7.0)), "length": length, "_explicit_type": rng.random() < 0.3}
    if method == "RECTANGLE":
        return {"method": method, "length": length, "width": width, "b_min": b_min, "b_max": b_max}
    if method in ("BIRECTANGLE", "BIZONEDRECTANGLE"):
        b_max_y = r3(min(b_max * rng.uniform(1.0, 1.3), short_side / 2.0 - 0.01))
        b_max_y = max(b_max_y, r3(b_min + 0.5))
        return {"method": method, "length": length, "width": width, "b_min": b_min, "b_max_x": b_max,
                "b_max_y": b_max_y}
    # polygon methods: outline kept >= 5 m away from both axes (DESIGN §7-F6)
    ox, oy = r3(rng.uniform(5.0, 12.0)), r3(rng.uniform(5.0, 12.0))
    kind = rng.choice(["rect", "quad", "pent", "L"]) if method == "BIRECTANGLECONSTRAINED" else rng.choice(
        ["rect", "quad", "pent"])
    if kind == "rect":
        poly = [[ox, oy], [ox + length, oy], [ox + length, oy + width], [ox, oy + width]]
    elif kind == "quad":
        poly = [[ox, oy], [ox + length, r3(oy + rng.uniform(0, 4))], [r3(ox + length - rng.uniform(0, 4)), oy + width],
                [r3(ox + rng.uniform(0, 4)), r3(oy + width - rng.uniform(0, 3))]]
    elif kind == "pent":
        poly = [[ox, oy], [ox + length, oy], [r3(ox + length + rng.uniform(1, 5)), r3(oy + width / 2)],
                [ox + length, oy + width], [ox, oy + width]]
    else:
        poly = [[ox, oy], [ox + length, oy], [ox + length, r3(oy + width / 2)], [r3(ox + length / 2), r3(oy + width / 2)],
                [r3(ox + length / 2), oy + width], [ox, oy + width]]
    if rng.random() < 0.5:
        poly = poly[::-1]
    nogo = []
    if rng.random() < 0.5:
        cx, cy = ox + length * rng.uniform(0.3, 0.45), oy + width * rng.uniform(0.3, 0.45)
        w, h = length * rng.uniform(0.1, 0.2), width * rng.uniform(0.1, 0.2)
        if rng.random() < 0.4:
            # a building whose wall lies on the centre line of the lot: grid points of every odd row count fall exactly on
            # its contour (the on-edge branch of the cut-out logic)
            cx, cy = ox + length / 2.0, oy + width / 2.0
            if rng.random() < 0.5:
                cx -= w
            if rng.random() < 0.5:
                cy -= h
        nogo = [[[r3(cx), r3(cy)], [r3(cx + w), r3(cy)], [r3(cx + w), r3(cy + h)], [r3(cx), r3(cy + h)]]]
    if method == "BIRECTANGLECONSTRAINED":
        return {"method": method, "b_min": b_min, "b_max_x": b_max, "b_max_y": r3(b_max * rng.uniform(1.0, 1.2)),
                "property_boundary": poly, "no_go_boundaries": nogo}
    # ROWWISE: the lot must admit at least three rows at the maximum spacing in every direction (C02's precondition;
    # narrower lots make the field generator divide by zero): the narrowest extent of the outline over all directions
    # (the quadrilateral / pentagon shapes cut up to 4 m off a side) bounds the maximum spacing
    use_perim = rng.random() < 0.5
    rot_lo = r3(rng.uniform(-90.0, -20.0))
    narrow = min(length, width) - 4.0
    max_sp = r3(min(rng.uniform(9.0, 12.0), narrow / 2.15))
    return {
        "method": method,
        "perimeter_spacing_ratio": r3(rng.uniform(0.6, 0.95)) if use_perim else None,
        "max_spacing": max_sp,
        "min_spacing": r3(max_sp * rng.uniform(0.45, 0.65)),
        "spacing_step": rng.choice([0.1, 0.2, 0.5]),
        "max_rotation": r3(rng.uniform(10.0, 90.0)),
        "min_rotation": rot_lo,
        "rotate_step": rng.choice([5.0, 10.0, 15.0, 30.0]),
        "property_boundary": poly,
        "no_go_boundaries": nogo,
    }


def lot_capacity(geom: dict) -> tuple:
    """Rough (min, max) borehole counts the lot admits; only used to scale load magnitudes."""
    m = geom["method"]
    if m == "NEARSQUARE":
        n = int(geom["length"] // geom["b"]) + 1
        return 1, n * (n + 1)
    if m in ("RECTANGLE", "BIRECTANGLE", "BIZONEDRECTANGLE"):
        bmin = geom["b_min"]
        return 1, (int(geom["length"] // bmin) + 1) * (int(geom["width"] // bmin) + 1)
    poly = geom["property_boundary"]
    xs = [p[0] for p in poly]
    ys = [p[1] for p in poly]
    b = geom.get("b_min", geom.get("min_spacing", 5.0))
    return 1, max(1, int((max(xs) - min(xs)) // b + 1) * int((max(ys) - min(ys)) // b + 1))


def draw_cfg(rng: random.Random, methods=None, pipes=None, target=None, months=None, small=True) -> dict:
    """One configuration.  `target` steers the load magnitude towards an outcome class:
    'bracket' (default mix), 'tiny' (clamped at min / too small), 'huge' (unmet)."""
    method = rng.choice(methods or METHODS)
    arrangement = rng.choice(pipes or PIPES)
    geom = draw_geometry(rng, method, small=small)
    pipe = draw_pipe(rng, arrangement)
    fluid_name = rng.choice(FLUIDS)
    pct = 0.0 if fluid_name == "WATER" else r3(rng.uniform(5.0, 30.0))
    fluid = {"fluid_name": fluid_name, "concentration_percent": pct, "temperature": rng.choice([20.0, 15.0, 25.0])}
    grout = {"conductivity": r3(rng.uniform(0.8, 2.0)), "rho_cp": r3(rng.uniform(3.0e6, 4.0e6))}
    ugt = r3(rng.uniform(8.0, 20.0))
    soil = {"conductivity": r3(rng.uniform(1.5, 3.5)), "rho_cp": r3(rng.uniform(1.9e6, 2.8e6)),
            "undisturbed_temp": ugt}
    if arrangement == "COAXIAL":
        diameter = r3(rng.uniform(0.14, 0.17))
    elif arrangement == "SINGLEUTUBE":
        diameter = r3(rng.uniform(0.13, 0.16))
    else:
        diameter = r3(rng.uniform(0.15, 0.18))
    if rng.random() < 0.25:
        # shallow fields: below ~70 m the short-time-step model runs for its minimum duration whatever the soil
        min_h = r3(rng.uniform(25.0, 45.0))
        max_h = r3(min_h + rng.uniform(15.0, 30.0))
    else:
        min_h = r3(rng.uniform(40.0, 70.0))
        max_h = r3(min_h + rng.uniform(40.0, 90.0))
    borehole = {"height": r3(rng.uniform(min_h, max_h)), "buried_depth": r3(rng.uniform(1.0, 4.0)),
                "diameter": diameter}
    if months is None:
        months = rng.choice([12, 12, 12, 24, 36]) if rng.random() < 0.9 else rng.choice([120, 240, 360])
    max_eft = r3(ugt + rng.uniform(12.0, 20.0))
    min_eft = r3(ugt - rng.uniform(6.0, 12.0))
    nlo, nhi = lot_capacity(geom)
    cap = None
    if rng.random() < 0.35 and method in ("NEARSQUARE", "RECTANGLE", "BIRECTANGLE", "BIZONEDRECTANGLE"):
        cap = rng.randint(3, max(4, nhi))
    cont = rng.random() < 0.4
    sim = {"num_months": months, "max_eft": max_eft, "min_eft": min_eft, "max_height": max_h, "min_height": min_h,
           "max_boreholes": cap, "continue_if_design_unmet": cont}
    flow_type = rng.choice(FLOWS)
    per_bh = r3(rng.uniform(0.2, 0.5))
    family = rng.choice(LOAD_FAMILIES)
    if target is None:
        target = rng.choices(["bracket", "tiny", "huge", "clamp_min"], [0.62, 0.13, 0.13, 0.12])[0]
    if target == "clamp_min":
        # a narrow height window and a load just above what one (or a few) boreholes carry at maximum height: the next
        # larger field is then ample even at minimum height and the sized height is clamped there, with real loads
        max_h = r3(min_h * rng.uniform(1.12, 1.45))
        borehole["height"] = r3(rng.uniform(min_h, max_h))
        sim["max_height"] = max_h
    # peak W per metre of drilling that a field sustains: a crude 35 W/m figure scaled by soil k and margins
    wpm = 35.0 * soil["conductivity"] / 2.5 * min(max_eft - ugt, ugt - min_eft) / 10.0
    if family == "constant":
        wpm *= 0.35
    eff_hi = min(nhi, cap - 1) if cap else nhi
    if target == "clamp_min":
        n_t = rng.choice([1, 1, 1, 2, 2, 3])
        amp = wpm * n_t * max_h * rng.uniform(1.0, 1.9)
    elif target == "bracket":
        n_t = math.exp(rng.uniform(math.log(1.5), math.log(max(2.0, eff_hi * 0.8))))
        amp = wpm * n_t * rng.uniform(min_h, max_h)
    elif target == "tiny":
        amp = wpm * min_h * rng.uniform(0.02, 0.5)
    else:
        amp = wpm * eff_hi * max_h * rng.uniform(2.5, 6.0)
    flow_rate = per_bh if flow_type == "BOREHOLE" else r3(per_bh * max(2.0, math.sqrt(nhi)))
    design = {"flow_rate": flow_rate, "flow_type": flow_type}
    loads = {"family": family, "amp": r3(amp), "seed": rng.randrange(1 << 30), "phase": r3(rng.uniform(-0.5, 0.5)),
             "sign": rng.choice([-1.0, 1.0]), "nspikes": rng.randint(4, 20)}
    return {"geometry": geom, "pipe": pipe, "fluid": fluid, "grout": grout, "soil": soil, "borehole": borehole,
            "simulation": sim, "design": design, "loads": loads, "target": target}


def amp_for(cfg: dict, n_t: float, h: float) -> float:
    """load amplitude that a field of about n_t boreholes of height h carries (same crude figure as draw_cfg)"""
    soil, sim = cfg["soil"], cfg["simulation"]
    ugt = soil["undisturbed_temp"]
    wpm = 35.0 * soil["conductivity"] / 2.5 * min(sim["max_eft"] - ugt, ugt - sim["min_eft"]) / 10.0
    if cfg["loads"]["family"] == "constant":
        wpm *= 0.35
    return r3(wpm * n_t * h)


# ------------------------------------------------------------------------------------ construction
SETTERS = ["pipe", "soil", "grout", "fluid", "borehole", "simulation", "loads", "geometry"]


def _call_setter(mgr, name: str, cfg: dict, loads_cache: dict):
    if name == "pipe":
        p = dict(cfg["pipe"])
        arr = p.pop("arrangement")
        if arr == "SINGLEUTUBE":
            mgr.set_single_u_tube_pipe(**p)
        elif arr == "DOUBLEUTUBEPARALLEL":
            mgr.set_double_u_tube_pipe_parallel(**p)
        elif arr == "DOUBLEUTUBESERIES":
            mgr.set_double_u_tube_pipe_series(**p)
        else:
            mgr.set_coaxial_pipe(**p)
    elif name == "soil":
        mgr.set_soil(**cfg["soil"])
    elif name == "grout":
        mgr.set_grout(**cfg["grout"])
    elif name == "fluid":
        mgr.set_fluid(**cfg["fluid"])
    elif name == "borehole":
        mgr.set_borehole(**cfg["borehole"])
    elif name == "simulation":
        mgr.set_simulation_parameters(**cfg["simulation"])
    elif name == "loads":
        key = repr(sorted(cfg["loads"].items()))
        if key not in loads_cache:
            loads_cache[key] = expand_loads(cfg["loads"])
        mgr.set_ground_loads_from_hourly_list(list(loads_cache[key]))
    elif name == "geometry":
        g = dict(cfg["geometry"])
        m = g.pop("method")
        explicit = g.pop("_explicit_type", False)
        if explicit:
            # the optional explicit type call; the geometry setters do not need it
            mgr.set_design_geometry_type(m.lower())
        if m == "NEARSQUARE":
            mgr.set_geometry_constraints_near_square(**g)
        elif m == "RECTANGLE":
            mgr.set_geometry_constraints_rectangle(**g)
        elif m == "BIRECTANGLE":
            mgr.set_geometry_constraints_bi_rectangle(**g)
        elif m == "BIZONEDRECTANGLE":
            mgr.set_geometry_constraints_bi_zoned_rectangle(**g)
        elif m == "BIRECTANGLECONSTRAINED":
            import copy

            g = copy.deepcopy(g)
            mgr.set_geometry_constraints_bi_rectangle_constrained(**g)
        else:
            import copy

            g = copy.deepcopy(g)
            mgr.set_geometry_constraints_rowwise(**g)
    else:
        raise ValueError(name)


_LOADS_CACHE: dict = {}


def build_manager(cfg: dict, order=None, decoys=None, set_design=True):
    """Build a GHEManager from cfg.  `order` is a permutation of SETTERS (canonical if None);
    `decoys` is a list of (setter name, decoy cfg) applied *before* the real setters, in the
    given order, so that the final state is the one cfg describes."""
    from ghedesigner.manager import GHEManager

    mgr = GHEManager()
    for name, dcfg in (decoys or []):
        _call_setter(mgr, name, dcfg, _LOADS_CACHE)
    for name in (order or SETTERS):
        _call_setter(mgr, name, cfg, _LOADS_CACHE)
    if set_design:
        mgr.set_design(flow_rate=cfg["design"]["flow_rate"], flow_type_str=cfg["design"]["flow_type"])
    return mgr
