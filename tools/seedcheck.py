#!/venv/bin/python
"""Confirm a seeded change and run checks against it, in a scratch worktree (never in /repo).

usage: seedcheck.py <dir with patch.diff, demo.py, meta.json> <id> [--tests] [--checks C13,C12] [--tier quick]
Steps: worktree of /repo HEAD under $TMPDIR -> demo must pass unpatched -> apply patch -> demo must fail ->
optionally the repository's test suite (60 tests, xdist) on the patched tree -> the named checks with VERIF_REPO=<worktree>
(evidence and replays diverted) -> worktree removed.  Prints one JSON line with the outcome.
"""
import json
import os
import shutil
import subprocess
import sys
import tempfile
import time
from pathlib import Path

VERIF = Path(__file__).resolve().parent.parent


def run(cmd, cwd=None, env=None, timeout=7200):
    t = time.time()
    p = subprocess.run(cmd, cwd=cwd, env=env, capture_output=True, text=True, timeout=timeout)
    return p.returncode, p.stdout + p.stderr, time.time() - t


def main():
    src = Path(sys.argv[1])
    sid = sys.argv[2]
    args = sys.argv[3:]
    checks = []
    tier = "quick"
    for i, a in enumerate(args):
        if a == "--checks":
            checks = args[i + 1].split(",")
        if a == "--tier":
            tier = args[i + 1]
    base = os.environ.get("TMPDIR", "/tmp")
    wt = tempfile.mkdtemp(prefix=f"ghe-sc-{os.getpid()}-", dir=base)
    os.rmdir(wt)
    out = {"id": sid, "src": str(src)}
    try:
        base_commit = "HEAD"
        for i, a in enumerate(args):
            if a == "--base":
                base_commit = args[i + 1]
        rc, o, _ = run(["git", "-C", "/repo", "worktree", "add", "--detach", "-f", wt, base_commit])
        assert rc == 0, o
        out["base_commit"] = run(["git", "-C", wt, "rev-parse", "--short", "HEAD"])[1].strip()
        env = dict(os.environ, PYTHONPATH=wt, OPENBLAS_NUM_THREADS="1")
        # keep the layout the demos were written for: <worktree>/seeded/<name>/demo.py
        dst = Path(wt) / "seeded" / src.name
        shutil.copytree(src, dst)
        demo_rel = str(Path("seeded") / src.name / "demo.py")
        rc0, o0, t0 = run([sys.executable, demo_rel], cwd=wt, env=env, timeout=1800)
        out["demo_unpatched_exit"] = rc0
        rc, o, _ = run(["git", "-C", wt, "apply", "--exclude=seeded/*", str(src / "patch.diff")])
        out["patch_applies"] = rc == 0
        if rc != 0:
            out["apply_error"] = o[-500:]
            print(json.dumps(out))
            return 1
        rc1, o1, t1 = run([sys.executable, demo_rel], cwd=wt, env=env, timeout=1800)
        out["demo_patched_exit"] = rc1
        out["demo_patched_tail"] = o1[-400:]
        out["demo_ok"] = rc0 == 0 and rc1 != 0
        if "--tests" in args:
            rc, o, t = run([sys.executable, "-m", "pytest", "-q", "-p", "no:cacheprovider", "-n", os.environ.get("SEED_TEST_WORKERS", "16"), "--timeout=1800",
                            "ghedesigner/tests", "--deselect", "ghedesigner/tests/test_demo_files.py"], cwd=wt, env=env)
            tail = [ln for ln in o.splitlines() if " passed" in ln or " failed" in ln]
            out["tests"] = {"exit": rc, "summary": tail[-1] if tail else o[-300:], "wall_s": round(t)}
        res = {}
        for c in checks:
            ev = tempfile.mkdtemp(prefix="ghe-sc-ev-", dir=base)
            cenv = dict(os.environ, VERIF_REPO=wt, VERIF_EVIDENCE_DIR=ev, VERIF_REPLAY_DIR=os.path.join(ev, "replays"))
            rc, o, t = run([str(VERIF / "run.py"), c, tier], cwd=str(VERIF), env=cenv)
            classes = [ln.strip()[:260] for ln in o.splitlines() if ln.startswith("  violation class")]
            res[c] = {"exit": rc, "detected": rc == 1 and "VIOLATION property=" in o, "wall_s": round(t), "classes": classes[:3]}
            if rc not in (0, 1):
                res[c]["tail"] = o[-1200:]
            shutil.rmtree(ev, ignore_errors=True)
        out["checks"] = res
    finally:
        run(["git", "-C", "/repo", "worktree", "remove", "--force", wt])
        shutil.rmtree(wt, ignore_errors=True)
        run(["git", "-C", "/repo", "worktree", "prune"])
    print(json.dumps(out))
    return 0


if __name__ == "__main__":
    sys.exit(main())
