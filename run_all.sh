#!/bin/bash
# convenience: run every claimed check at a tier, one after the other; prints one summary line per property
tier=${1:-quick}
cd "$(dirname "$0")"
rc=0
for p in C01 C02 C05 C12 C13 C17 C18 C19 C20; do
  start=$(date +%s)
  ./run.py $p $tier > /tmp/verif-$p-$tier.log 2>&1
  e=$?
  echo "$p $tier exit=$e $(( $(date +%s) - start ))s  $(grep -c '^VIOLATION' /tmp/verif-$p-$tier.log) violations, $(grep -c '^KNOWN-FINDING' /tmp/verif-$p-$tier.log) known"
  [ $e -ne 0 ] && rc=1
done
exit $rc
