#!/venv/bin/python
"""Entry point: ./run.py <Cxx> quick|thorough | replay <file> | selftest-determinism | selftest-mutants"""
import sys
from pathlib import Path

sys.path.insert(0, str(Path(__file__).resolve().parent))
from sim.checks import main  # noqa: E402

if __name__ == "__main__":
    sys.exit(main())
